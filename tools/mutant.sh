#!/bin/bash
# usage: tools/mutant.sh <patch.diff> <ID> [<ID> ...]
# Applies a seeded change to /repo, runs the quick tier of the given checks without touching the
# evidence files, and reverts /repo straight afterwards. Prints one line per check.
set -u
PATCH="$1"; shift
cd /verif
if ! git -C /repo diff --quiet; then echo "/repo is dirty, refusing"; exit 2; fi
git -C /repo apply "$PATCH" || { echo "patch does not apply"; exit 2; }
trap 'git -C /repo checkout -- . ' EXIT
for id in "$@"; do
  out=$(BBV_NO_EVIDENCE=1 BBV_REPLAY_DIR=/verif/work/mutant-replays VERIF_SEED=${VERIF_SEED:-0} ./bbv check "$id" --tier ${TIER:-quick} 2>&1)
  code=$?
  nviol=$(echo "$out" | grep -c '^VIOLATION')
  echo "$id exit=$code violations=$nviol $(echo "$out" | grep -E '^(OK|INCONCLUSIVE)' | head -1 | cut -c1-150)"
  if [ "${VERBOSE:-0}" = "1" ]; then echo "$out" | grep '^#' | head -3 | cut -c1-400; fi
done
