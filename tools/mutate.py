#!/usr/bin/env python3
"""Systematic mutation sweep of the bitbybit sources (sensitivity measurement of the checks).

  mutate.py list                         -> prints the number of mutation points
  mutate.py run <worker> <nworkers> <outdir>
        worker k of n takes every n-th mutant: applies it in its own scratch worktree
        (/tmp/auto/w<k>), discards it if the macro crate does not build, runs the repository's
        128 tests (debug); if they still pass, runs the quick tier of the checks (seed 0, no
        shrinking, no evidence) until one of them reports a violation.
Results: <outdir>/results.<k>.jsonl (one line per mutant) and survivor diffs.
Nothing is ever applied to /repo.
"""
import json, os, re, subprocess, sys, time

FILES = [
    "bitbybit/src/bitfield/codegen.rs",
    "bitbybit/src/bitfield/parsing.rs",
    "bitbybit/src/bitfield/mod.rs",
    "bitbybit/src/bitenum.rs",
    "bitbybit/src/bit_size.rs",
]

# (regex, replacements) applied to code lines; each match x each replacement = one mutant
OPS = [
    (r"(?<![<>=!+\-*/&|])<=(?![=>])", ["<"]),
    (r"(?<![<>=!+\-*/&|\-])>=(?!=)", [">"]),
    (r"(?<![<>=!\-&|+*/.])<(?![<=])(?=\s)", ["<="]),
    (r"(?<![<>=!\-&|+*/.])(?<=\s)>(?![>=])(?=\s)", [">="]),
    (r"==", ["!="]),
    (r"!=", ["=="]),
    (r"(?<![+\w])\+(?![+=])", ["-"]),
    (r"(?<=[\w)\s#])-(?![>=\-])(?=\s*[\w(#])", ["+"]),
    (r"<<(?!=)", [">>"]),
    (r">>(?!=)", ["<<"]),
    (r"&&", ["||"]),
    (r"\|\|", ["&&"]),
    (r"(?<![&|])\|(?![|=])(?=\s)", ["&"]),
    (r"(?<![&|])(?<=\s)&(?![&=])(?=\s)", ["|"]),
    (r"\b0\b(?![.x])", ["1"]),
    (r"\b1\b(?![.x])", ["0", "2"]),
    (r"\b(8|16|32|64|128)\b", None),  # neighbour width
    (r"\btrue\b", ["false"]),
    (r"\bfalse\b", ["true"]),
    (r"\.max\(", [".min("]),
    (r"\.min\(", [".max("]),
    (r"\bis_some\(\)", ["is_none()"]),
    (r"\bis_none\(\)", ["is_some()"]),
    (r"(?<=[\s(])!(?=[\w(])", [""]),
]

WIDTH_NEIGHBOUR = {"8": ["16"], "16": ["8", "32"], "32": ["16", "64"], "64": ["32", "128"], "128": ["64"]}


def code_lines(path):
    text = open(path).read().split("\n")
    out = []
    in_test = False
    for i, line in enumerate(text):
        s = line.strip()
        if s.startswith("//") or s.startswith("///") or s.startswith("#["):
            continue
        if "bitfield!:" in line or s.startswith("write!(f,") or s.startswith("use ") or "panic!(" in line or "expect(" in line:
            continue
        out.append(i)
    return text, out


def strip_strings(line):
    # positions inside string literals are not mutated
    mask = [True] * len(line)
    inside = False
    i = 0
    while i < len(line):
        c = line[i]
        if c == '"' and (i == 0 or line[i - 1] != "\\"):
            inside = not inside
            mask[i] = False
        elif inside:
            mask[i] = False
        i += 1
    # line comments
    k = line.find("//")
    if k >= 0 and mask[k]:
        for j in range(k, len(line)):
            mask[j] = False
    return mask


def enumerate_mutants(root):
    muts = []
    for f in FILES:
        text, idx = code_lines(os.path.join(root, f))
        for i in idx:
            line = text[i]
            mask = strip_strings(line)
            for rx, reps in OPS:
                for m in re.finditer(rx, line):
                    if not all(mask[m.start():m.end()]):
                        continue
                    rs = reps if reps is not None else WIDTH_NEIGHBOUR.get(m.group(0), [])
                    for r in rs:
                        muts.append({"file": f, "line": i + 1, "col": m.start(), "old": m.group(0), "new": r, "text": line.strip()[:160]})
    if os.environ.get("MUTATE_IFS") == "1":
        # second family: whole `if` conditions forced to true / false (replaces the token-level family)
        muts = []
        for f in FILES:
            text, idx = code_lines(os.path.join(root, f))
            for i in idx:
                line = text[i]
                m = re.match(r"^(\s*(?:\} else )?if )(?!let )(.+?)( \{\s*)$", line)
                if not m:
                    continue
                for r in ["true", "false"]:
                    muts.append({"file": f, "line": i + 1, "col": len(m.group(1)), "old": m.group(2), "new": r, "text": line.strip()[:160]})
    return muts


def sh(cmd, cwd, env=None, timeout=1800):
    e = dict(os.environ)
    e["CARGO_NET_OFFLINE"] = "true"
    if env:
        e.update(env)
    try:
        p = subprocess.run(cmd, cwd=cwd, env=e, shell=True, capture_output=True, text=True, timeout=timeout)
        return p.returncode, p.stdout + p.stderr
    except subprocess.TimeoutExpired:
        return 124, "timeout"


CHECK_ORDER = ["C02", "C03", "C04", "C09", "C14", "C10", "C07", "C13", "C15", "C17", "C19", "C06", "C05", "C08", "C11", "C12", "C01", "C16", "C18"]


def run(worker, nworkers, outdir):
    os.makedirs(outdir, exist_ok=True)
    w = f"/tmp/auto/w{worker}"
    if not os.path.isdir(w):
        os.makedirs("/tmp/auto", exist_ok=True)
        sh(f"git -C /repo worktree add --detach {w} HEAD", "/")
    sh("git checkout -q -- .", w)
    muts = enumerate_mutants(w)
    mine = [m for k, m in enumerate(muts) if k % nworkers == worker]
    resf = open(os.path.join(outdir, f"results.{worker}.jsonl"), "a")
    done = set()
    try:
        for l in open(os.path.join(outdir, f"results.{worker}.jsonl")):
            d = json.loads(l)
            done.add((d["file"], d["line"], d["col"], d["old"], d["new"]))
    except Exception:
        pass
    env = {
        "BBV_NO_SHRINK": "1",
        "BBV_NO_EVIDENCE": "1",
        "BBV_REPLAY_DIR": f"/tmp/auto/replays{worker}",
        "BBV_WORK_DIR": f"/tmp/auto/work{worker}",
        "BBV_MACRO_PATH": f"{w}/bitbybit",
        "BBV_TARGET_DIR": f"/tmp/auto/t{worker}",
        "VERIF_SEED": "0",
    }
    for m in mine:
        key = (m["file"], m["line"], m["col"], m["old"], m["new"])
        if key in done:
            continue
        sh("git checkout -q -- .", w)
        path = os.path.join(w, m["file"])
        lines = open(path).read().split("\n")
        line = lines[m["line"] - 1]
        lines[m["line"] - 1] = line[: m["col"]] + m["new"] + line[m["col"] + len(m["old"]):]
        open(path, "w").write("\n".join(lines))
        t0 = time.time()
        rec = dict(m)
        code, out = sh("cargo build --offline -p bitbybit 2>&1 | tail -3", w)
        code, out = sh("cargo build --offline -p bitbybit", w)
        if code != 0:
            rec["status"] = "does-not-build"
        else:
            code, out = sh("cargo test --workspace --offline 2>&1", w)
            ok = re.search(r"test result: ok\. 128 passed", out) is not None
            if not ok:
                rec["status"] = "killed-by-suite"
            else:
                rec["status"] = "survived"
                rec["checks"] = {}
                for c in CHECK_ORDER:
                    code, out = sh(f"/verif/target/engine/release/bbv check {c} --tier quick", "/verif", env)
                    rec["checks"][c] = code
                    if code == 1:
                        rec["status"] = "detected"
                        rec["detected_by"] = c
                        sig = [l for l in out.split("\n") if l.startswith("VIOLATION")]
                        rec["violation"] = sig[0] if sig else ""
                        break
                if rec["status"] == "survived":
                    d = subprocess.run("git diff", cwd=w, shell=True, capture_output=True, text=True).stdout
                    name = f"survivor-{m['file'].split('/')[-1]}-{m['line']}-{m['col']}-{len(done)}.diff"
                    open(os.path.join(outdir, name), "w").write(d)
                    rec["diff"] = name
        rec["wall_s"] = round(time.time() - t0, 1)
        resf.write(json.dumps(rec) + "\n")
        resf.flush()
        done.add(key)
    sh("git checkout -q -- .", w)


if __name__ == "__main__":
    if sys.argv[1] == "list":
        root = sys.argv[2] if len(sys.argv) > 2 else "/repo"
        ms = enumerate_mutants(root)
        print(len(ms))
        from collections import Counter
        print(Counter(m["file"] for m in ms))
        for m in ms[:: max(1, len(ms) // 25)]:
            print(m["file"], m["line"], m["old"], "->", m["new"], "|", m["text"][:90])
    elif sys.argv[1] == "run":
        run(int(sys.argv[2]), int(sys.argv[3]), sys.argv[4])
