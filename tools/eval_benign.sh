#!/bin/bash
# usage: tools/eval_benign.sh <seed> <lanes> <outfile> <patch.diff>...
# False-alarm test: applies each behaviour-preserving patch in a scratch worktree of /repo's HEAD (one per lane, under
# /tmp/evalbenign, removed at the end) and runs the quick tier of all 19 checks against it. Nothing is applied to
# /repo. Output: one line per patch, "<name> C01=<exit> ... C19=<exit>" (0 = silent, 1 = ALARM, 2 = inconclusive, e.g. the
# patch no longer applies to HEAD or no longer builds on top of a later fix). CHECKS="02 09 17" restricts the checks.
SEED=${1:-0}; LANES=${2:-4}; OUT=${3:-/tmp/evalbenign.log}; shift 3
B=/tmp/evalbenign; rm -rf $B; mkdir -p $B
printf '%s\n' "$@" > $B/list
split -n l/$LANES -d $B/list $B/lane.
for LN in $(seq 0 $((LANES-1))); do
  (
    W=$B/w$LN; git -C /repo worktree add --detach $W HEAD >/dev/null 2>&1
    while read p; do
      [ -z "$p" ] && continue
      name=$(basename $p .diff)
      cd $W && git checkout -q -- . && git clean -fdq bitbybit/src
      if ! git apply $p 2>/dev/null; then echo "$name does-not-apply-to-HEAD"; continue; fi
      line="$name"
      for c in ${CHECKS:-01 02 03 04 05 06 07 08 09 10 11 12 13 14 15 16 17 18 19}; do
        (cd /verif && VERIF_SEED=$SEED BBV_NO_SHRINK=1 BBV_NO_EVIDENCE=1 BBV_REPLAY_DIR=$B/replays$LN/$name BBV_WORK_DIR=$B/work$LN BBV_MACRO_PATH=$W/bitbybit BBV_TARGET_DIR=$B/t$LN ${BBV_BIN:-/verif/target/engine/release/bbv} check C$c --tier quick > $B/last$LN.C$c.out 2>&1)
        rc=$?; line="$line C$c=$rc"
        [ $rc = 1 ] && { mkdir -p $B/alarms; cp $B/last$LN.C$c.out $B/alarms/$name.C$c.out; }
      done
      echo "$line"
    done < $B/lane.0$LN > $B/out.$LN
    git -C /repo worktree remove --force $W
  ) &
done
wait
cat $B/out.* | sort > $OUT
git -C /repo worktree prune
[ -d $B/alarms ] && { mkdir -p /tmp/evalbenign-alarms; cp $B/alarms/* /tmp/evalbenign-alarms/; }
rm -rf $B
echo "alarms: $(grep -c '=1' $OUT)  inconclusive lines: $(grep -c '=2' $OUT)  of $(wc -l < $OUT)"
