#!/usr/bin/env python3
# regenerates /verif/MANIFEST.json (run from anywhere); validate with: python3-vt tools/validate.py
import json
props=[json.loads(l) for l in open('/verif/properties.jsonl')]
tech={
 'C01':'proptest + exhaustive sweeps over raw values of generated declarations; oracle = bit-by-bit reference register; metamorphic bit-flip relations',
 'C02':'proptest + exhaustive (raw,value) sweeps of generated declarations of every writable field kind; oracle = reference register; with_/set_ differential, idempotence, read-back round trip',
 'C03':'proptest over (raw,index,value) and out-of-range index probes under catch_unwind in dev and release builds; oracle = reference register',
 'C04':'proptest over generated range-list declarations (ordered, reversed, shuffled, interleaved arrays); oracle = reference register, write/read round trip',
 'C05':'proptest over signed fields with boundary values; oracle = arithmetic two\'s-complement model and whole-raw equality',
 'C06':'proptest + exhaustive raw round trips on all 132 base widths x default forms; static facts (ZERO/DEFAULT/size/align/Copy) per declaration',
 'C07':'exhaustive / proptest sweeps of raw values of generated bitenums; oracle = discriminant table, round trips both ways',
 'C08':'proptest over enum / Option<enum> / nested-bitfield fields; oracle = reference register + discriminant table',
 'C09':'generated declarations (fields r/w/rw/none) plus single-step perturbations across the validity boundary and systematic multi-field seeds; compile verdict (rustc JSON diagnostics, two macro build profiles) vs rule transcription, both directions; declarations the statement leaves open: same verdict from both macro profiles',
 'C10':'boundary cross product + random bitenum declarations and mutations; compile verdict vs acceptance predicate (two macro profiles); accepted enums swept exhaustively at run time',
 'C11':'model-based stateful testing: proptest histories of with_/set_/builder/read ops on arbitrary-int bases against an N-bit model, re-wrap indistinguishability after every step; overhang probes',
 'C12':'model-based stateful testing: proptest histories on layouts with overlapping fields; step-wise model plus independent last-write-wins oracle',
 'C13':'proptest over builder argument tuples of generated declarations; oracle = default + sequential model writes',
 'C14':'generated declarations on both sides of the builder predicate (up to 128-step chains) with must-compile / must-not-compile probe functions (prefixes, one step removed, subsequences, complete state conjured through Default); verdicts from rustc diagnostics, two macro build profiles',
 'C15':'generated const items with inputs drawn at generation time vs black_box run-time twins vs model (differential: const evaluator / run time / model)',
 'C16':'differential testing across build profiles: identical seeded case streams in dev (checks on, opt 0), release (checks off, opt 3) [thorough: + checked]; digests and model compared, totality under catch_unwind',
 'C17':'generated declarations with r/w/rw/none fields and rw twins; presence probes must compile, absence probes must fail to compile (rustc diagnostics per probe line, under cargo check and cargo check --tests), probes outside the declaring module; public surface of generated structs listed from the tokenised macro expansion and compared with the access letters',
 'C18':'generated documented declarations (doc comments in seven forms, up to 128 fields) compiled in a #![no_std] #![deny(missing_docs)] crate that forbids unexpected_cfgs; nightly macro expansion tokenised and scanned for unsafe / std / alloc',
 'C19':'proptest over raw values and histories of generated debug declarations; oracle = derive(Debug) twin struct filled from model values ({:?} and {:#?}); generated debug declarations with a write-only / accessor-less / array field must not compile',
}
checks=[]
for p in props:
    i=p['id']
    checks.append({
      "property_id": i,
      "quick_cmd": f"./bbv check {i} --tier quick",
      "thorough_cmd": f"./bbv check {i} --tier thorough",
      "evidence_file": f"evidence/{i}.json",
      "replay_cmd_template": "./bbv replay {path}",
      "engine": "bbv",
      "level_claimed": {"category":"exploration","text":"held on everything explored: generated declarations (systematic grid over template branches and boundaries + seeded random part) compiled with /repo's macro, and generated inputs per declaration (exhaustive where the domain is small) compared with an explicit oracle. No absence claim.","design_ref":f"DESIGN.md section 7 {i}, section 13"},
      "level_note":"trusts rustc/cargo 1.95 (nightly only for the C18 expansion), arbitrary-int 1.3.0, proptest 1.11 and this framework's reference model, emitters and adapters; see DESIGN.md section 10",
      "technique": tech[i],
    })
m={
 "version":1,
 "setup_cmd":"./setup.sh",
 "hooks":{"guard":"none","enable":"no source hooks: every check compiles generated programs against /repo/bitbybit as an unmodified path dependency, so the macro is rebuilt from the working tree","baseline_off_cmd":"cd /repo && cargo test --workspace --no-fail-fast --offline","source_commits":[],"add_only":True},
 "engines":[{"name":"bbv","path":"engine","serves_properties":[p['id'] for p in props],"kind_free_text":"two-level property-based testing: level 1 generates declarations (programs) from proptest choice sequences and compiles them in batches with /repo's macro; level 2 runs proptest / exhaustive sweeps inside the compiled binaries against a bit-by-bit reference model; compile-time properties are decided from rustc's JSON diagnostics per declaration / probe; failures are shrunk at both levels and saved as self-contained replay files"}],
 "checks":checks,
 "not_applicable":[],
 "notes":"Three genuine defects were found and repaired by fix: commits in /repo (5399325, 3fd59e9, af1d984; see KNOWN_FINDINGS.txt and DESIGN.md sections 8 and 13). 95 independently written faulty versions of the library are kept under seeded/ with the checks that catch them. Exit codes: 0 held, 1 violation (VIOLATION line), 2 inconclusive (infrastructure, never a violation)."
}
json.dump(m,open('/verif/MANIFEST.json','w'),indent=1)
print("written")
