#!/bin/bash
# usage: tools/confirm_mutant.sh <ID> <n>   (works inside the scratch worktree /tmp/mut/<ID>)
# Confirms independently: patch applies; suite passes (debug + release) with it; demo fails with it, passes without.
ID="$1"; N="$2"; W=${MUT_BASE:-/tmp/mut}/$ID; O=$W/out
cd "$W" || exit 2
export CARGO_NET_OFFLINE=true
git checkout -q -- . ; rm -rf bitbybit-tests/tests
res="$ID/$N"
git apply "$O/patch$N.diff" || { echo "$res patch-does-not-apply"; exit 0; }
d=$(cargo test --workspace --offline 2>&1 | grep -E "^test result: ok\. 128 passed" | wc -l)
r=$(cargo test --workspace --offline --release 2>&1 | grep -E "^test result: ok\. 128 passed" | wc -l)
res="$res suite_debug=$d suite_release=$r"
run_demo() {
  if [ -f "$O/demo$N.sh" ]; then
    sh "$O/demo$N.sh" "$W" >/dev/null 2>&1; echo $?
  else
    mkdir -p bitbybit-tests/tests; cp "$O/demo$N.rs" bitbybit-tests/tests/demo.rs
    CARGO_INCREMENTAL=0 cargo test --offline -p bitbybit-tests --test demo >/dev/null 2>&1; echo $?
  fi
}
with=$(run_demo)
git checkout -q -- . ; 
without=$(run_demo)
rm -rf bitbybit-tests/tests
echo "$res demo_with_patch_exit=$with demo_without_patch_exit=$without"
