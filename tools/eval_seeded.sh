#!/bin/bash
# usage: tools/eval_seeded.sh <seed> <lanes> <outfile> [list]
# Re-runs every seeded change under /verif/seeded/<id>/ (default list: seeded/covering-checks.list, lines
# "<id> <check> [<check>...]") against the check(s) that cover it: quick tier, no
# shrinking, no evidence. Each lane has its own scratch worktree of /repo's HEAD, work and target directory
# under /tmp/evalseeded (removed at the end). Nothing is ever applied to /repo. Output: one line per change,
# "<id> <check>=<exit code> ..." (1 = violation reported = caught).
SEED=${1:-0}; LANES=${2:-3}; OUT=${3:-/tmp/evalseeded.log}; LIST=$4
B=/tmp/evalseeded; mkdir -p $B
[ -z "$LIST" ] && LIST=/verif/seeded/covering-checks.list   # "<id> <covering check>" for all kept changes
[ -x /verif/target/engine/release/bbv ] || (cd /verif && ./bbv warm >/dev/null 2>&1)
split -n l/$LANES -d $LIST $B/lane.
for LN in $(seq 0 $((LANES-1))); do
  (
    W=$B/w$LN; git -C /repo worktree add --detach $W HEAD >/dev/null 2>&1
    while read b checks; do
      [ -z "$b" ] && continue
      cd $W && git checkout -q -- . && git clean -fdq bitbybit/src && git apply /verif/seeded/$b/patch.diff || { echo "$b patch-failed"; continue; }
      line="$b"
      for c in $checks; do
        (cd /verif && VERIF_SEED=$SEED BBV_NO_SHRINK=1 BBV_NO_EVIDENCE=1 BBV_REPLAY_DIR=$B/replays$LN/$b BBV_WORK_DIR=$B/work$LN BBV_MACRO_PATH=$W/bitbybit BBV_TARGET_DIR=$B/t$LN ${BBV_BIN:-/verif/target/engine/release/bbv} check $c --tier quick > $B/last$LN.out 2>&1)
        line="$line $c=$?"
      done
      echo "$line"
    done < $B/lane.0$LN > $B/out.$LN
    git -C /repo worktree remove --force $W
  ) &
done
wait
cat $B/out.* | sort > $OUT
git -C /repo worktree prune
rm -rf $B
echo "caught: $(grep -c '=1' $OUT) of $(wc -l < $OUT)"
