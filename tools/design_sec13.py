p='/verif/DESIGN.md'
s=open(p).read()
i=s.index("## Appendix A — implementation notes fixed by this design")
sec13=open('/tmp/sec13.txt').read()
lines=sorted(open('/verif/seeded/matrix.quick.log').read().strip().split('\n'))
hdr='change   '+' '.join(f'{k:02d}' for k in range(1,20))
out=[hdr]
for l in lines:
    pp=l.split(); name=pp[0]; d={x.split('=')[0]:x.split('=')[1] for x in pp[1:]}
    out.append(f'{name}    '+'  '.join(('X' if d[f"C{k:02d}"]=='1' else ('?' if d[f"C{k:02d}"]=='2' else '.')) for k in range(1,20)))
sec13=sec13.replace('@MATRIX@','\n'.join(out))
s=s[:i]+sec13+s[i:]
open(p,'w').write(s)
