#!/bin/bash
# usage: tools/matrix_one.sh <ID> <n>  — runs every quick check against mutant n of /tmp/mut/<ID> (scratch worktree), in isolation
ID="$1"; N="$2"; W=${MUT_BASE:-/tmp/mut}/$ID
cd "$W" && git checkout -q -- . && git apply out/patch$N.diff || exit 2
cd /verif
line="$ID-$N"
for c in 01 02 03 04 05 06 07 08 09 10 11 12 13 14 15 16 17 18 19; do
  BBV_NO_SHRINK=1 BBV_NO_EVIDENCE=1 BBV_REPLAY_DIR=$W/replays-$N BBV_WORK_DIR=$W/work BBV_MACRO_PATH=$W/bitbybit BBV_TARGET_DIR=$W/vt /verif/target/engine/release/bbv check C$c --tier quick >/dev/null 2>&1
  line="$line C$c=$?"
done
cd "$W" && git checkout -q -- .
echo "$line"
