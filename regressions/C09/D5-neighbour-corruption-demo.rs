// Demonstration of defect D5 (before fix 6bab666 this compiled and the assertion failed; now the
// declaration is rejected with E0308). Drop into bitbybit-tests/tests/ to run.
use arbitrary_int::*;
use bitbybit::{bitenum, bitfield};

#[bitenum(u3, exhaustive = true)]
#[derive(Debug, PartialEq, Eq)]
enum E {
    V0 = 0, V1 = 1, V2 = 2, V3 = 3, V4 = 4, V5 = 5, V6 = 6, V7 = 7,
}

// f selects two bits but its type is three bits wide: must be rejected
#[bitfield(u8)]
struct S {
    #[bits(0..=1, w)]
    f: E,
    #[bits(2..=7, rw)]
    g: u6,
}

#[test]
fn neighbour_is_corrupted() {
    let s = S::new_with_raw_value(0).with_f(E::V7);
    assert_eq!(s.g(), u6::new(0), "raw = {:#x}", s.raw_value());
}
