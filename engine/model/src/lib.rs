//! Pure reference model for bitbybit declarations. No dependency on bitbybit itself.
//!
//! * data types describing a declaration *as written* (so that invalid declarations are
//!   representable too),
//! * a renderer from the data type to Rust source,
//! * a bit-by-bit reference register (gather / scatter one bit at a time, no word shifts/masks),
//! * the validity predicate (C09), builder predicate (C14), bitenum acceptance predicate (C10).

use serde::{Deserialize, Serialize};

pub mod render;
pub mod rules;

#[derive(Clone, Debug, Serialize, Deserialize, PartialEq, Eq, Hash)]
pub struct Rng {
    pub lo: u32,
    pub hi: u32,
    /// written as a single number `n` instead of `n..=n` (only meaningful when lo == hi)
    pub short: bool,
}

impl Rng {
    pub fn new(lo: u32, hi: u32) -> Rng {
        Rng { lo, hi, short: false }
    }
    pub fn bit(n: u32) -> Rng {
        Rng { lo: n, hi: n, short: true }
    }
    pub fn len(&self) -> u32 {
        if self.hi >= self.lo {
            self.hi - self.lo + 1
        } else {
            0
        }
    }
}

#[derive(Clone, Debug, Serialize, Deserialize, PartialEq, Eq, Hash)]
pub struct ArrayDecl {
    pub count: u32,
    /// None = stride omitted in the attribute
    pub stride: Option<u32>,
    /// `stride: n` instead of `stride = n`
    pub colon: bool,
}

#[derive(Clone, Copy, Debug, Serialize, Deserialize, PartialEq, Eq, Hash)]
pub enum Access {
    R,
    W,
    RW,
    None,
}

impl Access {
    pub fn readable(self) -> bool {
        matches!(self, Access::R | Access::RW)
    }
    pub fn writable(self) -> bool {
        matches!(self, Access::W | Access::RW)
    }
    pub fn text(self) -> Option<&'static str> {
        match self {
            Access::R => Some("r"),
            Access::W => Some("w"),
            Access::RW => Some("rw"),
            Access::None => None,
        }
    }
}

#[derive(Clone, Debug, Serialize, Deserialize, PartialEq, Eq, Hash)]
pub enum FieldTy {
    Bool,
    /// arbitrary-int uN, N not a native width
    UArb { bits: u32, qualified: bool },
    /// u8..u128
    UNat { bits: u32 },
    /// i8..i128
    INat { bits: u32 },
    /// bitenum `enums[idx]`, plain or wrapped in Option<>
    Enum { idx: usize, option: bool },
    /// another bitfield `inners[idx]`
    Nested { idx: usize },
}

#[derive(Clone, Debug, Serialize, Deserialize, PartialEq, Eq, Hash)]
pub struct Field {
    pub name: String,
    /// attribute keyword is `bit` (true) or `bits` (false)
    pub kw_bit: bool,
    /// ranges written inside `[...]`
    pub list: bool,
    pub ranges: Vec<Rng>,
    pub array: Option<ArrayDecl>,
    pub ty: FieldTy,
    pub access: Access,
    /// order of the attribute arguments: 0 = range, access, stride (documented); 1..=5 the other
    /// permutations (all accepted by the macro's argument parser)
    #[serde(default)]
    pub arg_order: u8,
    /// Option<E> written as 1: `core::option::Option<E>`, 2: `::core::option::Option<E>`
    #[serde(default)]
    pub opt_path: u8,
    /// adversarial literal: one number of the attribute is written as this (up to u64::MAX) instead of
    /// the value held in the model; only used for declarations that are invalid by R4
    #[serde(default)]
    pub huge: Option<Huge>,
    /// bit positions, stride and array length written with a leading zero (`010` is decimal 10 in Rust)
    #[serde(default)]
    pub zero_pad: bool,
}

#[derive(Clone, Debug, Serialize, Deserialize, PartialEq, Eq, Hash)]
pub struct Huge {
    /// "stride", "hi0" (upper bound of the first listed range) or "count" (array length)
    pub part: String,
    pub value: u64,
}

#[derive(Clone, Debug, Serialize, Deserialize, PartialEq, Eq, Hash)]
pub struct DefaultDecl {
    #[serde(with = "hex")]
    pub value: u128,
    pub named_const: bool,
    /// 10, 16, 2, 8; 17 / 3: hex / binary with `_` separators; 110 / 116 / 102: decimal / hex / binary literal
    /// carrying the type suffix of the storage integer (`0x567u16` for a u14 base)
    pub radix: u8,
    /// name of the named constant (default: DEF_<STRUCT>)
    #[serde(default)]
    pub const_name: Option<String>,
}

#[derive(Clone, Copy, Debug, Serialize, Deserialize, PartialEq, Eq, Hash)]
pub enum Exh {
    True,
    False,
    Omitted,
    Conditional,
}

#[derive(Clone, Copy, Debug, Serialize, Deserialize, PartialEq, Eq, Hash)]
pub enum Cfg {
    None,
    /// `#[cfg(all())]` — always enabled
    Always,
    /// `#[cfg(any())]` — never enabled
    Never,
}

#[derive(Clone, Debug, Serialize, Deserialize, PartialEq, Eq, Hash)]
pub enum Disc {
    Missing,
    Lit {
        #[serde(with = "hex")]
        value: u128,
        radix: u8,
        underscore: bool,
    },
    /// any non-literal expression, text as written
    NonLit(String),
}

#[derive(Clone, Debug, Serialize, Deserialize, PartialEq, Eq, Hash)]
pub struct Variant {
    pub name: String,
    pub disc: Disc,
    pub cfg: Cfg,
    /// attribute spelling: 0 plain; 1 `#[allow(dead_code)]` before the cfg; 2 two cfg attributes
    /// (Always: all() all(); Never: all() then any()); 3 a doc comment before the cfg
    #[serde(default)]
    pub style: u8,
}

#[derive(Clone, Debug, Serialize, Deserialize, PartialEq, Eq, Hash)]
pub struct EnumDecl {
    pub name: String,
    pub bits: u32,
    pub variants: Vec<Variant>,
    pub exhaustive: Exh,
    /// `exhaustive: x` instead of `exhaustive = x`
    pub colon: bool,
    /// storage written as `arbitrary_int::uN`
    pub qualified: bool,
    /// `#[bitenum(exhaustive = x, uN)]` instead of `#[bitenum(uN, exhaustive = x)]`
    #[serde(default)]
    pub args_swapped: bool,
}

impl EnumDecl {
    /// (discriminant, variant index) for every enabled variant with a literal discriminant
    pub fn table(&self) -> Vec<(u128, usize)> {
        let mut t = Vec::new();
        for (i, v) in self.variants.iter().enumerate() {
            if v.cfg == Cfg::Never {
                continue;
            }
            if let Disc::Lit { value, .. } = v.disc {
                t.push((value, i));
            }
        }
        t
    }
    pub fn lookup(&self, raw: u128) -> Option<usize> {
        // same as searching `table()`, without building it (enums with hundreds of variants are swept value by value)
        self.variants.iter().position(|v| v.cfg != Cfg::Never && matches!(v.disc, Disc::Lit { value, .. } if value == raw))
    }
    /// Does new_with_raw_value return Self directly (true) or Result<Self, _> (false)?
    pub fn returns_plain(&self) -> bool {
        matches!(self.exhaustive, Exh::True)
    }
    pub fn is_native_storage(&self) -> bool {
        matches!(self.bits, 8 | 16 | 32 | 64)
    }
    pub fn storage_bits(&self) -> u32 {
        storage_bits(self.bits)
    }
}

#[derive(Clone, Debug, Serialize, Deserialize, PartialEq, Eq, Hash)]
pub struct Layout {
    pub name: String,
    pub base_bits: u32,
    pub default: Option<DefaultDecl>,
    /// `default: x` instead of `default = x`
    pub default_colon: bool,
    pub debug: bool,
    pub fields: Vec<Field>,
    pub enums: Vec<EnumDecl>,
    pub inners: Vec<Layout>,
    /// `#[bitfield(uN, debug, default = x)]` instead of `#[bitfield(uN, default = x, debug)]`
    #[serde(default)]
    pub debug_first: bool,
    /// visibility of the struct: 0 `pub`, 1 `pub(crate)`, 2 `pub(super)`
    #[serde(default)]
    pub vis: u8,
    /// bit 0: between the auxiliary types and the struct, a sibling module declares types with the *same names*
    /// (E0, I0, ...) but other widths. They are never used; a macro that keeps state between invocations keyed
    /// by bare type name would mix them up. bit 1: items of the user's own named like companions of the struct
    /// (`SBuilder`, `SFields`, `SRaw`, ...) in the same module. bit 2: a user module called `core` in scope.
    #[serde(default)]
    pub decoys: u8,
    /// attributes the user puts on the struct and the macro passes through: bit 0 `#[derive(Default)]` (only
    /// rendered when no `default` is declared — the macro implements Default itself otherwise), bit 1
    /// `#[derive(PartialEq, Eq)]`, bit 2 `#[derive(Debug)]` (only rendered without the `debug` option)
    #[serde(default)]
    pub derives: u8,
    /// only meaningful for an entry of `inners`: != 0 means the type is not a `#[bitfield]` at all but a
    /// hand-written struct that merely offers the two raw-value conversions ("any type offering the same raw-value
    /// conversions", C08): 1 = `raw_value(self)`, 2 = `raw_value(&self)`
    #[serde(default)]
    pub handwritten: u8,
    /// != 0: the struct item is produced by a `macro_rules!` wrapper of the user's: the base type arrives as a
    /// `$base:ty` fragment, every field name as `$f:ident` from the invocation, a literal default as `$d:literal`
    /// (invocation contexts the macro supports today)
    #[serde(default)]
    pub macro_wrap: u8,
}

pub fn is_native_width(bits: u32) -> bool {
    matches!(bits, 8 | 16 | 32 | 64 | 128)
}

/// smallest native integer width that holds `bits`
pub fn storage_bits(bits: u32) -> u32 {
    if bits <= 8 {
        8
    } else if bits <= 16 {
        16
    } else if bits <= 32 {
        32
    } else if bits <= 64 {
        64
    } else {
        128
    }
}

pub fn mask(bits: u32) -> u128 {
    if bits >= 128 {
        u128::MAX
    } else {
        (1u128 << bits) - 1
    }
}

impl Layout {
    pub fn base_native(&self) -> bool {
        is_native_width(self.base_bits)
    }
    pub fn storage_bits(&self) -> u32 {
        storage_bits(self.base_bits)
    }
    pub fn base_mask(&self) -> u128 {
        mask(self.base_bits)
    }
    pub fn ty_bits(&self, ty: &FieldTy) -> u32 {
        match ty {
            FieldTy::Bool => 1,
            FieldTy::UArb { bits, .. } | FieldTy::UNat { bits } | FieldTy::INat { bits } => *bits,
            FieldTy::Enum { idx, .. } => self.enums[*idx].bits,
            FieldTy::Nested { idx } => self.inners[*idx].base_bits,
        }
    }
    pub fn default_value(&self) -> u128 {
        self.default.as_ref().map(|d| d.value).unwrap_or(0)
    }
}

impl Field {
    /// number of bits selected by one element
    pub fn width(&self) -> u32 {
        self.ranges.iter().map(|r| r.len()).sum()
    }
    pub fn count(&self) -> u32 {
        self.array.as_ref().map(|a| a.count).unwrap_or(1)
    }
    pub fn is_array(&self) -> bool {
        self.array.is_some()
    }
    /// effective stride (element width when omitted on a contiguous array)
    pub fn stride(&self) -> u32 {
        match &self.array {
            None => 0,
            Some(a) => a.stride.unwrap_or_else(|| self.width()),
        }
    }
    /// Absolute bit positions of element `idx`, least-significant value bit first,
    /// ranges in declaration order.
    pub fn positions(&self, idx: u32) -> Vec<u32> {
        let off = idx * self.stride();
        let mut v = Vec::new();
        for r in &self.ranges {
            let mut b = r.lo;
            while b <= r.hi {
                v.push(b + off);
                if b == u32::MAX {
                    break;
                }
                b += 1;
            }
        }
        v
    }
    /// footprint mask of element idx (positions >= 128 are dropped)
    pub fn footprint(&self, idx: u32) -> u128 {
        let mut m = 0u128;
        for p in self.positions(idx) {
            if p < 128 {
                m |= 1u128 << p;
            }
        }
        m
    }
    pub fn footprint_all(&self) -> u128 {
        (0..self.count()).fold(0, |m, i| m | self.footprint(i))
    }
    pub fn highest_bit(&self) -> u32 {
        let c = self.count().max(1);
        self.ranges.iter().map(|r| r.hi.max(r.lo)).max().unwrap_or(0) + (c - 1) * self.stride()
    }
}

/// Reference register: gather the bits of one element, one bit at a time.
pub fn gather(raw: u128, positions: &[u32]) -> u128 {
    let mut v = 0u128;
    for (k, p) in positions.iter().enumerate() {
        if (raw >> p) & 1 == 1 {
            v |= 1u128 << k;
        }
    }
    v
}

/// Reference register: scatter value bits into the positions, one bit at a time. Value bits
/// beyond the number of positions are ignored. When a position occurs twice the later value bit
/// wins (never the case for generated test programs).
pub fn scatter(raw: u128, positions: &[u32], v: u128) -> u128 {
    let mut r = raw;
    for (k, p) in positions.iter().enumerate() {
        if (v >> k) & 1 == 1 {
            r |= 1u128 << p;
        } else {
            r &= !(1u128 << p);
        }
    }
    r
}

/// two's complement interpretation of the low `w` bits
pub fn to_signed(bits: u128, w: u32) -> i128 {
    if w >= 128 {
        return bits as i128;
    }
    let bits = bits & mask(w);
    if (bits >> (w - 1)) & 1 == 1 {
        // p - 2^w
        (bits as i128) - (1i128 << w)
    } else {
        bits as i128
    }
}

/// What a getter is expected to present.
#[derive(Clone, Debug, Serialize, Deserialize, PartialEq, Eq, Hash)]
pub enum Val {
    /// unsigned value / bool (0|1) / exhaustive enum discriminant / nested raw value
    Bits(#[serde(with = "hex")] u128),
    /// signed field
    Signed(#[serde(with = "dec")] i128),
    /// Option<enum>: Ok(discriminant)
    Ok(#[serde(with = "hex")] u128),
    /// Option<enum>: Err(raw field bits)
    Err(#[serde(with = "hex")] u128),
    /// the call panicked
    Panic,
}

/// Expected presentation of field bits for a field type.
pub fn present(layout: &Layout, ty: &FieldTy, bits: u128) -> Val {
    match ty {
        FieldTy::INat { bits: w } => Val::Signed(to_signed(bits, *w)),
        FieldTy::Enum { idx, option: true } => match layout.enums[*idx].lookup(bits) {
            Some(_) => Val::Ok(bits),
            None => Val::Err(bits),
        },
        _ => Val::Bits(bits),
    }
}

/// 64-bit mixing hash used for distinct-case counting and seed derivation (splitmix64 finaliser).
pub fn mix64(mut z: u64) -> u64 {
    z = z.wrapping_add(0x9E3779B97F4A7C15);
    z = (z ^ (z >> 30)).wrapping_mul(0xBF58476D1CE4E5B9);
    z = (z ^ (z >> 27)).wrapping_mul(0x94D049BB133111EB);
    z ^ (z >> 31)
}

pub fn mix_all(parts: &[u64]) -> u64 {
    let mut h = 0x243F6A8885A308D3u64;
    for p in parts {
        h = mix64(h ^ *p);
    }
    h
}

pub fn hash_u128(h: u64, v: u128) -> u64 {
    mix64(mix64(h ^ (v as u64)) ^ ((v >> 64) as u64))
}

#[cfg(test)]
mod tests {
    use super::*;
    #[test]
    fn gather_scatter() {
        let pos = vec![8, 9, 10, 11, 3, 31];
        let raw = 0xFFFF_0F0Fu128;
        let v = gather(raw, &pos);
        assert_eq!(v, 0b11_1111);
        let r2 = scatter(0, &pos, 0b10_0101);
        assert_eq!(r2, (1 << 8) | (1 << 10) | (1 << 31));
        assert_eq!(to_signed(0xFF, 8), -1);
        assert_eq!(to_signed(0x80, 8), -128);
        assert_eq!(to_signed(0x7F, 8), 127);
        assert_eq!(to_signed(u128::MAX, 128), -1);
    }
}

/// u128 as a hex string (serde_json cannot round-trip 128-bit numbers)
pub mod hex {
    use serde::{Deserialize, Deserializer, Serializer};
    pub fn serialize<S: Serializer>(v: &u128, s: S) -> Result<S::Ok, S::Error> {
        s.serialize_str(&format!("0x{:x}", v))
    }
    pub fn parse(t: &str) -> Option<u128> {
        let t = t.trim().replace('_', "");
        if let Some(h) = t.strip_prefix("0x") {
            u128::from_str_radix(h, 16).ok()
        } else if let Some(b) = t.strip_prefix("0b") {
            u128::from_str_radix(b, 2).ok()
        } else {
            t.parse().ok()
        }
    }
    pub fn deserialize<'de, D: Deserializer<'de>>(d: D) -> Result<u128, D::Error> {
        let t = String::deserialize(d)?;
        parse(&t).ok_or_else(|| serde::de::Error::custom("bad u128"))
    }
}

/// i128 as a decimal string
pub mod dec {
    use serde::{Deserialize, Deserializer, Serializer};
    pub fn serialize<S: Serializer>(v: &i128, s: S) -> Result<S::Ok, S::Error> {
        s.serialize_str(&format!("{}", v))
    }
    pub fn deserialize<'de, D: Deserializer<'de>>(d: D) -> Result<i128, D::Error> {
        let t = String::deserialize(d)?;
        t.trim().parse().map_err(|_| serde::de::Error::custom("bad i128"))
    }
}

/// u128 newtype that serialises as a hex string; used inside containers.
#[derive(Clone, Copy, PartialEq, Eq, Hash, PartialOrd, Ord, Default)]
pub struct H(pub u128);

impl std::fmt::Debug for H {
    fn fmt(&self, f: &mut std::fmt::Formatter<'_>) -> std::fmt::Result {
        write!(f, "0x{:x}", self.0)
    }
}
impl Serialize for H {
    fn serialize<S: serde::Serializer>(&self, s: S) -> Result<S::Ok, S::Error> {
        hex::serialize(&self.0, s)
    }
}
impl<'de> Deserialize<'de> for H {
    fn deserialize<D: serde::Deserializer<'de>>(d: D) -> Result<H, D::Error> {
        hex::deserialize(d).map(H)
    }
}

#[cfg(test)]
mod serde_tests {
    use super::*;
    #[test]
    fn u128_json_roundtrip() {
        let v = vec![Val::Bits(u128::MAX), Val::Signed(i128::MIN), Val::Ok(1 << 100)];
        let s = serde_json::to_string(&v).unwrap();
        let back: Vec<Val> = serde_json::from_str(&s).unwrap();
        assert_eq!(v, back);
        let h = vec![H(u128::MAX), H(0)];
        let s = serde_json::to_string(&h).unwrap();
        let back: Vec<H> = serde_json::from_str(&s).unwrap();
        assert_eq!(h, back);
    }
}
