//! Layout / EnumDecl -> Rust source text.

use crate::*;

#[derive(Clone, Debug)]
pub struct RenderOpts {
    /// emit `///` doc comments on every item, field and variant (C18)
    pub docs: bool,
    /// emit `pub` on types
    pub vis_pub: bool,
    /// derive line placed on bitenums (may be empty)
    pub enum_derives: String,
    /// field doc comments are written after the bit/bits attribute instead of before it
    pub docs_after_attr: bool,
    /// attribute line placed between #[bitfield(..)] and the struct (passed through by the macro)
    pub struct_derives: String,
}

impl Default for RenderOpts {
    fn default() -> Self {
        RenderOpts { docs: false, vis_pub: true, enum_derives: "#[derive(Debug, PartialEq, Eq)]".to_string(), docs_after_attr: false, struct_derives: String::new() }
    }
}

/// Documentation for one item, in one of the forms users write it. The form is chosen from the item's name, so a
/// corpus contains all of them: a short line; a first line of more than 80 columns; several paragraphs; the
/// `#[doc = ".."]` attribute; text with quotes, backslashes and braces; a block doc comment.
pub fn doc_text(indent: &str, what: &str, name: &str) -> String {
    let style = name.bytes().fold(name.len() as u32, |a, b| a.wrapping_mul(31).wrapping_add(b as u32)) % 7;
    match style {
        0 | 1 => format!("{}/// documented {}\n", indent, what),
        2 => format!("{}/// documented {} whose first line is deliberately much longer than eighty columns, the way prose wrapped by hand or by a tool often turns out\n", indent, what),
        3 => format!("{}/// documented {}\n{}///\n{}/// A second paragraph, with `code`, a [link](https://example.org) and a list:\n{}/// * one\n{}/// * two\n", indent, what, indent, indent, indent, indent),
        4 => format!("{}#[doc = \"documented {} through the attribute form\"]\n", indent, what),
        5 => format!("{}/// documented {}: quotes \"x\", a backslash \\ , braces {{}} {{0}}, a tick 'a, a hash # and r#\"raw\"#\n", indent, what),
        _ => format!("{}/** documented {} in a block comment */\n", indent, what),
    }
}

/// stands for the path of the module a declaration is written into (`m12::decl`, `d12`), see `fill_module_path`
pub const BBV_PATH_PLACEHOLDER: &str = "__bbv_module_path__";

/// replace the placeholder in a module file by the module's own path from the crate root
pub fn fill_module_path(src: &str, module_name: &str) -> String {
    if !src.contains(BBV_PATH_PLACEHOLDER) {
        return src.to_string();
    }
    let path = if src.contains("pub mod decl {") { format!("{}::decl", module_name) } else { module_name.to_string() };
    src.replace(BBV_PATH_PLACEHOLDER, &path)
}

pub fn lit(value: u128, radix: u8, underscore: bool) -> String {
    let s = match radix {
        16 => format!("{:x}", value),
        2 => format!("{:b}", value),
        8 => format!("{:o}", value),
        _ => format!("{}", value),
    };
    let s = if underscore && s.len() > 2 {
        // insert `_` every 4 digits from the right
        let mut out = String::new();
        let n = s.len();
        for (i, c) in s.chars().enumerate() {
            if i > 0 && (n - i) % 4 == 0 {
                out.push('_');
            }
            out.push(c);
        }
        out
    } else {
        s
    };
    match radix {
        16 => format!("0x{}", s),
        2 => format!("0b{}", s),
        8 => format!("0o{}", s),
        _ => s,
    }
}

pub fn base_ty_name(bits: u32) -> String {
    format!("u{}", bits)
}

pub fn render_enum(e: &EnumDecl, o: &RenderOpts) -> String {
    let mut s = String::new();
    let storage = if e.qualified { format!("arbitrary_int::u{}", e.bits) } else { format!("u{}", e.bits) };
    let sep = if e.colon { ":" } else { " =" };
    let exh = match e.exhaustive {
        Exh::True => format!(", exhaustive{} true", sep),
        Exh::False => format!(", exhaustive{} false", sep),
        Exh::Conditional => format!(", exhaustive{} conditional", sep),
        Exh::Omitted => String::new(),
    };
    if o.docs {
        s.push_str(&doc_text("", "enum", &e.name));
    }
    if e.args_swapped && !exh.is_empty() {
        s.push_str(&format!("#[bitbybit::bitenum({}, {})]\n", exh.trim_start_matches(", "), storage));
    } else {
        s.push_str(&format!("#[bitbybit::bitenum({}{})]\n", storage, exh));
    }
    if !o.enum_derives.is_empty() {
        s.push_str(&o.enum_derives);
        s.push('\n');
    }
    let big = e.variants.iter().any(|v| matches!(v.disc, Disc::Lit { value, .. } if value > 0x7FFF_FFFF));
    if big {
        s.push_str("#[repr(u64)]\n");
    }
    let vis = if o.vis_pub { "pub " } else { "" };
    s.push_str(&format!("{}enum {} {{\n", vis, e.name));
    for v in &e.variants {
        if o.docs {
            s.push_str(&doc_text("    ", "variant", &v.name));
        }
        match v.style {
            1 => s.push_str("    #[allow(dead_code)]\n"),
            3 if !o.docs => s.push_str("    /// a variant\n"),
            _ => {}
        }
        match (v.cfg, v.style) {
            (Cfg::None, _) => {}
            (Cfg::Always, 2) => s.push_str("    #[cfg(all())]\n    #[cfg(all())]\n"),
            (Cfg::Never, 2) => s.push_str("    #[cfg(all())]\n    #[cfg(any())]\n"),
            (Cfg::Always, _) => s.push_str("    #[cfg(all())]\n"),
            (Cfg::Never, _) => s.push_str("    #[cfg(any())]\n"),
        }
        match &v.disc {
            Disc::Missing => s.push_str(&format!("    {},\n", v.name)),
            Disc::Lit { value, radix, underscore } => {
                s.push_str(&format!("    {} = {},\n", v.name, lit(*value, *radix, *underscore)))
            }
            Disc::NonLit(t) => s.push_str(&format!("    {} = {},\n", v.name, t)),
        }
    }
    s.push_str("}\n");
    s
}

pub fn ty_text(l: &Layout, ty: &FieldTy) -> String {
    match ty {
        FieldTy::Bool => "bool".to_string(),
        FieldTy::UArb { bits, qualified } => {
            if *qualified {
                format!("arbitrary_int::u{}", bits)
            } else {
                format!("u{}", bits)
            }
        }
        FieldTy::UNat { bits } => format!("u{}", bits),
        FieldTy::INat { bits } => format!("i{}", bits),
        FieldTy::Enum { idx, option } => {
            if *option {
                format!("Option<{}>", l.enums[*idx].name) // (qualified spellings are applied in render_field)
            } else {
                l.enums[*idx].name.clone()
            }
        }
        FieldTy::Nested { idx } => l.inners[*idx].name.clone(),
    }
}

pub fn rng_text(r: &Rng) -> String {
    rng_text_p(r, false)
}

fn num(n: u64, pad: bool) -> String {
    if pad {
        format!("0{}", n)
    } else {
        format!("{}", n)
    }
}

pub fn rng_text_p(r: &Rng, pad: bool) -> String {
    if r.short && r.lo == r.hi {
        num(r.lo as u64, pad)
    } else {
        format!("{}..={}", num(r.lo as u64, pad), num(r.hi as u64, pad))
    }
}

pub fn field_attr(f: &Field) -> String {
    let kw = if f.kw_bit { "bit" } else { "bits" };
    let huge_hi0 = f.huge.as_ref().filter(|h| h.part == "hi0").map(|h| h.value);
    let range = if f.list {
        let mut inner: Vec<String> = f.ranges.iter().map(|r| rng_text_p(r, f.zero_pad)).collect();
        if let Some(v) = huge_hi0 {
            inner[0] = format!("{}..={}", f.ranges[0].lo, v);
        }
        format!("[{}]", inner.join(", "))
    } else if let Some(v) = huge_hi0 {
        format!("{}..={}", f.ranges[0].lo, v)
    } else {
        rng_text_p(&f.ranges[0], f.zero_pad)
    };
    let access = f.access.text().map(|a| a.to_string());
    let huge_stride = f.huge.as_ref().filter(|h| h.part == "stride").map(|h| h.value);
    let stride = f.array.as_ref().and_then(|a| {
        let st: Option<u64> = huge_stride.or(a.stride.map(|x| x as u64));
        let pad = f.zero_pad && huge_stride.is_none();
        st.map(|st| if a.colon { format!("stride: {}", num(st, pad)) } else { format!("stride = {}", num(st, pad)) })
    });
    // (range, access, stride) in one of the six orders
    let perm: [usize; 3] = match f.arg_order % 6 {
        0 => [0, 1, 2],
        1 => [0, 2, 1],
        2 => [1, 0, 2],
        3 => [1, 2, 0],
        4 => [2, 0, 1],
        _ => [2, 1, 0],
    };
    let parts = [Some(range), access, stride];
    let args: Vec<String> = perm.iter().filter_map(|k| parts[*k].clone()).collect();
    format!("#[{}({})]", kw, args.join(", "))
}

pub fn render_field(l: &Layout, f: &Field, o: &RenderOpts) -> String {
    let mut s = String::new();
    if o.docs && !o.docs_after_attr {
        s.push_str(&doc_text("    ", "field", &f.name));
    }
    s.push_str("    ");
    s.push_str(&field_attr(f));
    s.push('\n');
    if o.docs && o.docs_after_attr {
        s.push_str(&doc_text("    ", "field", &f.name));
    }
    let mut t = ty_text(l, &f.ty);
    if let FieldTy::Enum { option: true, .. } = &f.ty {
        match f.opt_path {
            // (with a user module called `core` in scope the unanchored spelling would be the user's mistake)
            1 if l.decoys & 4 != 0 => t = format!("::core::option::{}", t),
            1 => t = format!("core::option::{}", t),
            2 => t = format!("::core::option::{}", t),
            _ => {}
        }
    }
    let k = l.fields.iter().position(|x| std::ptr::eq(x, f)).unwrap_or(0);
    let wrapped = l.macro_wrap != 0;
    // inside a macro_rules! body a type of the user's own is commonly written `$crate::path::Type`; the path of the
    // declaring module is filled in where the source is written to a file (BBV_PATH_PLACEHOLDER). Not for
    // `Option<..>` fields: the macro does not support `Option<$crate::E>` today.
    let t = match &f.ty {
        FieldTy::Enum { option: false, .. } | FieldTy::Nested { .. } if wrapped && k % 2 == 0 => format!("$crate::{}::{}", BBV_PATH_PLACEHOLDER, t),
        _ => t,
    };
    let t = match &f.array {
        Some(a) => format!("[{}; {}]", t, array_len_text(f, a)),
        None => t,
    };
    if wrapped {
        s.push_str(&format!("    $f{}: {},\n", k, t));
    } else {
        s.push_str(&format!("    {}: {},\n", f.name, t));
    }
    s
}

fn array_len_text(f: &Field, a: &ArrayDecl) -> String {
    match f.huge.as_ref().filter(|h| h.part == "count") {
        Some(h) => format!("{}", h.value),
        None => num(a.count as u64, f.zero_pad),
    }
}

pub fn default_const_name(l: &Layout) -> String {
    match l.default.as_ref().and_then(|d| d.const_name.clone()) {
        Some(n) => n,
        None => format!("DEF_{}", l.name.to_uppercase()),
    }
}

/// Only the `#[bitfield(..)] struct ..` item (and its named default const), without aux types.
pub fn render_struct(l: &Layout, o: &RenderOpts) -> String {
    let mut s = String::new();
    let wrapped = l.macro_wrap != 0;
    let mut literal_default: Option<String> = None;
    let mut args = vec![if wrapped { "$base".to_string() } else { base_ty_name(l.base_bits) }];
    if let Some(d) = &l.default {
        let sep = if l.default_colon { ":" } else { " =" };
        if d.named_const {
            s.push_str(&format!(
                "const {}: u{} = {};\n",
                default_const_name(l),
                l.storage_bits(),
                lit(d.value, if d.radix == 17 || d.radix == 116 { 16 } else if d.radix == 3 || d.radix == 102 { 2 } else { d.radix }, false)
            ));
            args.push(format!("default{} {}", sep, default_const_name(l)));
        } else {
            // radix 8 / 17 / 3: octal, and hex / binary with `_` separators
            let text = match d.radix {
                17 => lit(d.value, 16, true),
                3 => lit(d.value, 2, true),
                110 => format!("{}u{}", lit(d.value, 10, false), l.storage_bits()),
                116 => format!("{}u{}", lit(d.value, 16, false), l.storage_bits()),
                102 => format!("{}_u{}", lit(d.value, 2, true), l.storage_bits()),
                r => lit(d.value, r, false),
            };
            if wrapped {
                literal_default = Some(text);
                args.push(format!("default{} $d", sep));
            } else {
                args.push(format!("default{} {}", sep, text));
            }
        }
    }
    if l.debug {
        if l.debug_first && args.len() > 1 {
            args.insert(1, "debug".to_string());
        } else {
            args.push("debug".to_string());
        }
    }
    // what follows is the struct item; with `macro_wrap` it becomes the body of a macro_rules! arm
    let head = std::mem::take(&mut s);
    if o.docs {
        s.push_str(&doc_text("", "bitfield", &format!("{}{}", l.name, l.fields.len())));
    }
    s.push_str(&format!("#[bitbybit::bitfield({})]\n", args.join(", ")));
    if !o.struct_derives.is_empty() {
        s.push_str(&o.struct_derives);
        s.push('\n');
    }
    {
        // attributes of the user's own, passed through by the macro
        let mut d: Vec<&str> = Vec::new();
        if l.derives & 1 != 0 && l.default.is_none() {
            d.push("Default");
        }
        if l.derives & 2 != 0 && !o.struct_derives.contains("PartialEq") {
            d.push("PartialEq");
            d.push("Eq");
        }
        if l.derives & 4 != 0 && !l.debug && !o.struct_derives.contains("Debug") {
            d.push("Debug");
        }
        if !d.is_empty() {
            s.push_str(&format!("#[derive({})]\n", d.join(", ")));
        }
    }
    let vis = match (o.vis_pub, l.vis) {
        (false, _) => "",
        (true, 1) => "pub(crate) ",
        (true, 2) => "pub(super) ",
        _ => "pub ",
    };
    if l.fields.is_empty() && l.base_bits % 2 == 1 {
        // a bitfield without fields may also be written as a unit struct
        s.push_str(&format!("{}struct {};\n", vis, l.name));
    } else {
        s.push_str(&format!("{}struct {} {{\n", vis, l.name));
        for f in &l.fields {
            s.push_str(&render_field(l, f, o));
        }
        s.push_str("}\n");
    }
    if !wrapped {
        return format!("{}{}", head, s);
    }
    // macro_rules! wrapper: base type, literal default, field names and array lengths come from the invocation
    let mname = format!("mk_{}", l.name.to_lowercase());
    // (array lengths stay in the body: whether a length that arrives as a `$n:literal` / `$n:expr` fragment — an
    // invisible group — has to be understood is not something the statements decide; see DESIGN.md 13.5, M1-2)
    let mut pat = vec!["$base:ty".to_string(), "$d:literal".to_string()];
    let mut inv = vec![base_ty_name(l.base_bits), literal_default.unwrap_or_else(|| "0".to_string())];
    for (k, f) in l.fields.iter().enumerate() {
        pat.push(format!("$f{}:ident", k));
        inv.push(f.name.clone());
    }
    let mut out = head;
    out.push_str(&format!("macro_rules! {} {{\n    ({}) => {{\n", mname, pat.join(", ")));
    for line in s.lines() {
        out.push_str("        ");
        out.push_str(line);
        out.push('\n');
    }
    out.push_str("    };\n}\n");
    out.push_str(&format!("{}!({});\n", mname, inv.join(", ")));
    out
}

/// A custom field type written by hand: a newtype around the base integer with const `new_with_raw_value` and
/// `raw_value` — all the macro may rely on for a field of a type it does not know.
pub fn render_handwritten(i: &Layout, o: &RenderOpts) -> String {
    let base = base_ty_name(i.base_bits);
    let recv = if i.handwritten == 2 { "&self" } else { "self" };
    let doc = |what: &str, name: &str| if o.docs { doc_text("", what, name) } else { String::new() };
    let doc4 = |what: &str, name: &str| if o.docs { doc_text("    ", what, name) } else { String::new() };
    format!(
        "{}#[derive(Copy, Clone, Debug, PartialEq, Eq)]\npub struct {}({});\nimpl {} {{\n{}    pub const fn new_with_raw_value(value: {}) -> Self {{\n        {}(value)\n    }}\n{}    pub const fn raw_value({}) -> {} {{\n        self.0\n    }}\n}}\n",
        doc("hand-written field type", &i.name),
        i.name,
        base,
        i.name,
        doc4("constructor", "new_with_raw_value"),
        base,
        i.name,
        doc4("accessor", "raw_value"),
        recv,
        base
    )
}

/// Aux types (enums, inner bitfields) followed by the struct.
pub fn render_layout(l: &Layout, o: &RenderOpts) -> String {
    let mut s = String::new();
    for e in &l.enums {
        s.push_str(&render_enum(e, o));
    }
    for i in &l.inners {
        if i.handwritten != 0 {
            s.push_str(&render_handwritten(i, o));
        } else {
            s.push_str(&render_layout(i, o));
        }
    }
    if l.decoys & 2 != 0 {
        // companions of the struct's name that the user declared for purposes of their own
        for suffix in ["Builder", "Fields", "Raw", "Bits", "Mask", "Value", "Default", "Debug", "Ext", "Impl", "Layout", "Register"] {
            s.push_str(&format!("/// a type of the user's own\n#[derive(Clone, Copy)]\npub struct {}{};\n", l.name, suffix));
        }
    }
    if l.decoys & 4 != 0 {
        s.push_str("/// a module of the user's own that happens to be called `core`\npub mod core {\n    /// nothing the macro should ever look at\n    pub mod fmt {}\n    /// nothing the macro should ever look at\n    pub mod mem {}\n}\n");
    }
    if l.decoys & 1 != 0 && (!l.enums.is_empty() || !l.inners.is_empty()) {
        s.push_str("/// same-named types of other widths; never used\npub mod decoy {\n    #![allow(dead_code, unused_imports)]\n    use arbitrary_int::*;\n");
        for e in &l.enums {
            let bits = if e.bits < 64 { e.bits + 1 } else { e.bits - 1 };
            let d = EnumDecl {
                name: e.name.clone(),
                bits,
                variants: vec![Variant { name: "D0".into(), disc: Disc::Lit { value: 0, radix: 10, underscore: false }, cfg: Cfg::None, style: 0 }],
                exhaustive: Exh::False,
                colon: false,
                qualified: false,
                args_swapped: false,
            };
            for line in render_enum(&d, o).lines() {
                s.push_str("    ");
                s.push_str(line);
                s.push('\n');
            }
        }
        for i in &l.inners {
            let bits = if i.base_bits < 128 { i.base_bits + 1 } else { i.base_bits - 1 };
            let d = Layout {
                name: i.name.clone(),
                base_bits: bits,
                default: None,
                default_colon: false,
                debug: false,
                fields: vec![Field { name: "z".into(), kw_bit: true, list: false, ranges: vec![Rng::bit(0)], array: None, ty: FieldTy::Bool, access: Access::RW, arg_order: 0, opt_path: 0, huge: None, zero_pad: false }],
                enums: vec![],
                inners: vec![],
                debug_first: false,
                vis: 0,
                decoys: 0,
                derives: 0,
                handwritten: 0,
                macro_wrap: 0,
            };
            for line in render_struct(&d, o).lines() {
                s.push_str("    ");
                s.push_str(line);
                s.push('\n');
            }
        }
        s.push_str("}\n");
    }
    s.push_str(&render_struct(l, o));
    s
}
