//! Oracles over declarations: C09 validity, C14 builder availability, C10 bitenum acceptance.
//! Direct transcriptions of the property statements; they share no code with the macro.

use crate::*;

#[derive(Clone, Debug, PartialEq, Eq, Serialize, Deserialize)]
pub enum Verdict {
    /// the statement requires the declaration to compile
    Valid,
    /// the statement requires a compile error; names the violated rule(s)
    Invalid(Vec<String>),
    /// the statement leaves this declaration open; never used as a test case
    Unspecified(String),
}

impl Verdict {
    pub fn is_valid(&self) -> bool {
        matches!(self, Verdict::Valid)
    }
    pub fn is_invalid(&self) -> bool {
        matches!(self, Verdict::Invalid(_))
    }
}

/// Is the list of ranges (one element) free of a bit named twice?
pub fn ranges_disjoint(f: &Field) -> bool {
    let mut seen = std::collections::HashSet::new();
    for r in &f.ranges {
        if r.lo > r.hi {
            continue;
        }
        for b in r.lo..=r.hi {
            if !seen.insert(b) {
                return false;
            }
        }
    }
    true
}

/// Is the list equivalent to a single ascending contiguous range?
pub fn ranges_contiguous_ascending(f: &Field) -> bool {
    let mut next: Option<u32> = None;
    for r in &f.ranges {
        if r.lo > r.hi {
            return false;
        }
        if let Some(n) = next {
            if r.lo != n {
                return false;
            }
        }
        next = Some(r.hi + 1);
    }
    true
}

pub fn field_verdict(l: &Layout, f: &Field) -> Verdict {
    if f.ranges.is_empty() {
        return Verdict::Unspecified("no range".into());
    }
    if let Some(h) = &f.huge {
        // adversarial literals, judged with 128-bit arithmetic
        let base = l.base_bits as u128;
        match h.part.as_str() {
            "stride" => {
                let (count, top0) = match &f.array {
                    Some(a) => (a.count as u128, f.ranges.iter().map(|r| r.hi).max().unwrap() as u128),
                    None => return Verdict::Unspecified("stride on a non-array".into()),
                };
                if count >= 2 && top0 + (count - 1) * (h.value as u128) >= base {
                    return Verdict::Invalid(vec!["R4-above-base".into()]);
                }
                return Verdict::Unspecified("huge stride that fits".into());
            }
            "count" => {
                // array length written as a huge number: (count - 1) * stride + top of element 0, in 128 bits
                let (stride, top0) = match &f.array {
                    Some(a) => (a.stride.unwrap_or_else(|| f.width()) as u128, f.ranges.iter().map(|r| r.hi).max().unwrap() as u128),
                    None => return Verdict::Unspecified("count on a non-array".into()),
                };
                if h.value >= 2 && stride >= 1 && top0 + (h.value as u128 - 1) * stride >= base {
                    return Verdict::Invalid(vec!["R4-above-base".into()]);
                }
                return Verdict::Unspecified("huge count that fits".into());
            }
            "hi0" => {
                if (h.value as u128) >= base && (h.value as u128) >= f.ranges[0].lo as u128 {
                    return Verdict::Invalid(vec!["R4-above-base".into()]);
                }
                return Verdict::Unspecified("huge bound that fits".into());
            }
            _ => return Verdict::Unspecified("unknown adversarial literal".into()),
        }
    }
    if !f.list && f.ranges.len() != 1 {
        return Verdict::Unspecified("several ranges outside a list".into());
    }
    if !f.list {
        // documented spellings only: bit(n) and bits(lo..=hi)
        let r = &f.ranges[0];
        if f.kw_bit && !(r.short && r.lo == r.hi) {
            return Verdict::Unspecified("bit(a..=b)".into());
        }
        if !f.kw_bit && r.short {
            return Verdict::Unspecified("bits(n)".into());
        }
    } else if f.kw_bit {
        return Verdict::Unspecified("bit([..])".into());
    }
    for r in &f.ranges {
        if r.short && r.lo != r.hi {
            return Verdict::Unspecified("short range with lo != hi".into());
        }
    }
    if let Some(a) = &f.array {
        // stride 0 on a contiguous array is simply "stride below the element width" (R3);
        // on a list array (where no minimum is documented) it is left open
        if a.stride == Some(0) && f.ranges.len() != 1 {
            return Verdict::Unspecified("stride = 0 on a list array".into());
        }
    }
    match &f.ty {
        FieldTy::Enum { idx, option } => {
            let e = &l.enums[*idx];
            if e.returns_plain() == *option {
                return Verdict::Unspecified("Option<> does not match the enum's exhaustiveness".into());
            }
            if enum_verdict(e) != Verdict::Valid {
                return Verdict::Unspecified("field uses an enum that is not accepted".into());
            }
        }
        FieldTy::Nested { idx } => {
            if layout_verdict(&l.inners[*idx]) != Verdict::Valid {
                return Verdict::Unspecified("field uses an inner bitfield that is not valid".into());
            }
        }
        FieldTy::UArb { bits, .. } => {
            if *bits == 0 || *bits > 127 || is_native_width(*bits) {
                return Verdict::Unspecified("not an arbitrary-int type".into());
            }
        }
        FieldTy::UNat { bits } | FieldTy::INat { bits } => {
            if !is_native_width(*bits) {
                return Verdict::Unspecified("not a native type".into());
            }
        }
        FieldTy::Bool => {}
    }

    let mut bad: Vec<String> = Vec::new();
    // R1
    let r1 = f.ranges.iter().all(|r| r.lo <= r.hi);
    if !r1 {
        bad.push("R1-reversed-range".into());
    }
    // a list naming a bit twice: the number of "selected bits" (R2) is ambiguous, so R2 is not judged; a
    // violation of another rule still makes the declaration invalid, otherwise it is left open
    let dup = r1 && !ranges_disjoint(f);
    let width = f.width();
    // R2
    if r1 && !dup {
        let tb = l.ty_bits(&f.ty);
        if matches!(f.ty, FieldTy::Bool) {
            if width != 1 {
                bad.push("R2-bool-needs-one-bit".into());
            }
        } else if tb != width {
            bad.push("R2-type-width".into());
        }
    }
    // R3
    if let Some(a) = &f.array {
        if a.count < 2 {
            bad.push("R3-array-count".into());
        }
        if f.ranges.len() == 1 {
            if let Some(st) = a.stride {
                if r1 && st < width {
                    bad.push("R3-stride-below-width".into());
                }
            }
        } else if a.stride.is_none() {
            if r1 && ranges_contiguous_ascending(f) {
                return Verdict::Unspecified("list equivalent to one range, stride omitted".into());
            }
            bad.push("R3-list-array-needs-stride".into());
        }
    }
    // R4
    if r1 {
        let stride_known = match &f.array {
            None => true,
            Some(a) => a.stride.is_some() || f.ranges.len() == 1,
        };
        if stride_known {
            let top = f.highest_bit();
            if top >= l.base_bits {
                bad.push("R4-above-base".into());
            }
        } else {
            // stride unknown: only element 0 can be judged
            let top = f.ranges.iter().map(|r| r.hi).max().unwrap();
            if top >= l.base_bits {
                bad.push("R4-above-base".into());
            }
        }
    }
    if bad.is_empty() {
        if dup {
            return Verdict::Unspecified("list names a bit twice".into());
        }
        Verdict::Valid
    } else {
        Verdict::Invalid(bad)
    }
}

pub fn layout_verdict(l: &Layout) -> Verdict {
    if l.base_bits == 0 || l.base_bits > 128 {
        return Verdict::Unspecified("base width".into());
    }
    if let Some(d) = &l.default {
        if d.value > l.base_mask() {
            return Verdict::Unspecified("default does not fit the base".into());
        }
    }
    let mut bad = Vec::new();
    for f in &l.fields {
        match field_verdict(l, f) {
            Verdict::Valid => {}
            Verdict::Invalid(mut r) => bad.append(&mut r),
            u @ Verdict::Unspecified(_) => return u,
        }
    }
    if l.debug {
        // `debug` requires every field to be a readable non-array (C19 parenthesis)
        if l.fields.iter().any(|f| !f.access.readable() || f.is_array()) {
            return Verdict::Unspecified("debug with unreadable or array field".into());
        }
    }
    if bad.is_empty() {
        Verdict::Valid
    } else {
        Verdict::Invalid(bad)
    }
}

/// Names of the methods a declaration generates (getter for readable fields, with_/set_ for writable ones;
/// a raw identifier loses its `r#` in with_/set_). Some(name) if two of them coincide: such a declaration
/// is rejected by rustc (E0592) for reasons that have nothing to do with the bit rules.
pub fn api_name_collision(l: &Layout) -> Option<String> {
    let mut seen = std::collections::HashSet::new();
    for n in ["raw_value", "new_with_raw_value", "builder", "new", "default", "ZERO", "DEFAULT"] {
        seen.insert(n.to_string());
    }
    for f in &l.fields {
        let plain = f.name.strip_prefix("r#").unwrap_or(&f.name).to_string();
        let mut names = Vec::new();
        if f.access.readable() {
            names.push(plain.clone());
        }
        if f.access.writable() {
            names.push(format!("with_{}", plain));
            names.push(format!("set_{}", plain));
        }
        for n in names {
            if !seen.insert(n.clone()) {
                return Some(n);
            }
        }
    }
    None
}

/// C14: must `builder()` exist? Only meaningful for valid layouts.
pub fn builder_expected(l: &Layout) -> bool {
    let mut seen = 0u128;
    for f in &l.fields {
        if !f.access.writable() {
            continue;
        }
        for i in 0..f.count() {
            // per range, so that a list naming a bit twice counts as overlap
            let off = i * f.stride();
            for r in &f.ranges {
                for b in r.lo..=r.hi {
                    let p = b + off;
                    if p >= 128 {
                        continue;
                    }
                    let m = 1u128 << p;
                    if seen & m != 0 {
                        return false;
                    }
                    seen |= m;
                }
            }
        }
    }
    l.default.is_some() || seen == l.base_mask()
}

/// Mask of all bits writable through some field.
pub fn writable_mask(l: &Layout) -> u128 {
    l.fields.iter().filter(|f| f.access.writable()).fold(0, |m, f| m | f.footprint_all())
}

/// C10 acceptance predicate.
pub fn enum_verdict(e: &EnumDecl) -> Verdict {
    let mut bad = Vec::new();
    if e.bits == 0 || e.bits > 64 {
        return Verdict::Invalid(vec!["E-size-out-of-range".into()]);
    }
    let max_count: u128 = 1u128 << e.bits;
    let mut discs: Vec<(u128, Cfg)> = Vec::new();
    for v in &e.variants {
        match &v.disc {
            Disc::Missing => bad.push("E-missing-discriminant".to_string()),
            Disc::NonLit(_) => bad.push("E-nonliteral-discriminant".to_string()),
            Disc::Lit { value, .. } => {
                if *value >= max_count {
                    bad.push("E-discriminant-too-large".to_string());
                }
                discs.push((*value, v.cfg));
            }
        }
    }
    if e.variants.is_empty() {
        return Verdict::Unspecified("empty enum".into());
    }
    let gated = e.variants.iter().any(|v| v.cfg != Cfg::None);
    if gated && e.exhaustive != Exh::Conditional {
        bad.push("E-cfg-needs-conditional".to_string());
    }
    // rustc itself rejects duplicate discriminants among enabled variants
    {
        let mut seen = std::collections::HashSet::new();
        for (d, c) in &discs {
            if *c == Cfg::Never {
                continue;
            }
            if !seen.insert(*d) {
                return Verdict::Unspecified("duplicate discriminant (rejected by rustc itself)".into());
            }
        }
    }
    let count = e.variants.len() as u128;
    let distinct: std::collections::HashSet<u128> = discs.iter().filter(|(d, _)| *d < max_count).map(|(d, _)| *d).collect();
    let all_present = distinct.len() as u128 == max_count;
    match e.exhaustive {
        Exh::True => {
            if !(all_present && count == max_count) {
                bad.push("E-claims-exhaustive-but-is-not".to_string());
            }
        }
        Exh::False | Exh::Omitted => {
            if count > max_count {
                bad.push("E-too-many-variants".to_string());
            } else if all_present {
                bad.push("E-is-exhaustive-but-claims-not".to_string());
            }
        }
        Exh::Conditional => {}
    }
    bad.sort();
    bad.dedup();
    if bad.is_empty() {
        Verdict::Valid
    } else {
        Verdict::Invalid(bad)
    }
}

#[cfg(test)]
mod tests {
    use super::*;
    fn fld(lo: u32, hi: u32, ty: FieldTy) -> Field {
        Field { name: "f0".into(), kw_bit: false, list: false, ranges: vec![Rng::new(lo, hi)], array: None, ty, access: Access::RW }
    }
    fn lay(bits: u32, fields: Vec<Field>) -> Layout {
        Layout { name: "S".into(), base_bits: bits, default: None, default_colon: false, debug: false, fields, enums: vec![], inners: vec![], debug_first: false, vis: 0, decoys: 0, derives: 0, handwritten: 0, macro_wrap: 0 }
    }
    #[test]
    fn validity() {
        assert!(layout_verdict(&lay(32, vec![fld(0, 7, FieldTy::UNat { bits: 8 })])).is_valid());
        assert!(layout_verdict(&lay(32, vec![fld(0, 8, FieldTy::UNat { bits: 8 })])).is_invalid());
        assert!(layout_verdict(&lay(24, vec![fld(24, 31, FieldTy::UNat { bits: 8 })])).is_invalid());
        assert!(layout_verdict(&lay(24, vec![fld(16, 23, FieldTy::UNat { bits: 8 })])).is_valid());
        let mut a = fld(0, 7, FieldTy::UNat { bits: 8 });
        a.array = Some(ArrayDecl { count: 4, stride: None, colon: false });
        assert!(layout_verdict(&lay(24, vec![a.clone()])).is_invalid());
        assert!(layout_verdict(&lay(32, vec![a.clone()])).is_valid());
        assert!(builder_expected(&lay(32, vec![a.clone()])));
        assert!(!builder_expected(&lay(64, vec![a])));
    }
}
