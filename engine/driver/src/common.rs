//! Shared driver infrastructure: run context, exit-code contract, evidence, known findings, replays.

use serde_json::{json, Value};
use std::path::PathBuf;
use std::time::Instant;

/// root of the framework tree: the directory of the `bbv` script that started this process (BBV_ROOT), /verif by
/// default. Work directories, build output, replays and evidence live below it, so a copy of the tree (a
/// snapshot used for a background run) never shares files with the original.
pub fn verif() -> String {
    std::env::var("BBV_ROOT").unwrap_or_else(|_| "/verif".to_string())
}

#[derive(Clone, Copy, Debug, PartialEq, Eq)]
pub enum Tier {
    Quick,
    Thorough,
}

impl Tier {
    pub fn name(self) -> &'static str {
        match self {
            Tier::Quick => "quick",
            Tier::Thorough => "thorough",
        }
    }
    pub fn pick<T>(self, q: T, t: T) -> T {
        match self {
            Tier::Quick => q,
            Tier::Thorough => t,
        }
    }
}

pub struct RunCtx {
    pub prop: String,
    pub tier: Tier,
    pub seed: u64,
    pub work: PathBuf,
    pub t0: Instant,
    /// in replay / sensitivity mode no evidence file is written
    pub write_evidence: bool,
}

impl RunCtx {
    pub fn new(prop: &str, tier: Tier, seed: u64) -> RunCtx {
        let work = PathBuf::from(format!("{}/{}", std::env::var("BBV_WORK_DIR").unwrap_or_else(|_| format!("{}/work", verif())), prop));
        std::fs::create_dir_all(&work).ok();
        RunCtx { prop: prop.to_string(), tier, seed, work, t0: Instant::now(), write_evidence: std::env::var("BBV_NO_EVIDENCE").is_err() }
    }
    pub fn wall(&self) -> f64 {
        self.t0.elapsed().as_secs_f64()
    }
    pub fn watchdog(&self) {
        let limit = match self.tier {
            Tier::Quick => 20.0 * 60.0,
            Tier::Thorough => 90.0 * 60.0,
        };
        if self.wall() > limit {
            inconclusive(&format!("watchdog: {} tier exceeded {} s", self.tier.name(), limit));
        }
    }
}

pub fn inconclusive(msg: &str) -> ! {
    println!("INCONCLUSIVE {}", msg);
    std::process::exit(2);
}

/// One violation found by a check.
#[derive(Clone, Debug)]
pub struct Violation {
    /// stable signature: violated sub-check + template class (used for known-findings matching)
    pub sig: String,
    pub summary: String,
    /// self-contained replay document
    pub replay: Value,
}

#[derive(Clone, Debug)]
pub struct Known {
    pub property: String,
    pub sig: String,
    pub text: String,
}

pub fn load_known() -> Vec<Known> {
    let mut out = Vec::new();
    let text = std::fs::read_to_string(format!("{}/KNOWN_FINDINGS.txt", verif())).unwrap_or_default();
    for line in text.lines() {
        let line = line.trim();
        let rest = match line.strip_prefix("known:") {
            Some(r) => r.trim(),
            None => continue, // `fixed:` lines and comments suppress nothing
        };
        let mut property = String::new();
        let mut sig = String::new();
        let mut words = Vec::new();
        for w in rest.split_whitespace() {
            if let Some(p) = w.strip_prefix("property=") {
                property = p.to_string();
            } else if let Some(s) = w.strip_prefix("sig=") {
                sig = s.to_string();
            } else {
                words.push(w);
            }
        }
        if !property.is_empty() && !sig.is_empty() {
            out.push(Known { property, sig, text: words.join(" ") });
        }
    }
    out
}

fn sanitize(s: &str) -> String {
    s.chars().map(|c| if c.is_ascii_alphanumeric() || c == '-' || c == '_' { c } else { '_' }).collect()
}

pub struct Outcome {
    pub violations: Vec<Violation>,
    /// coverage object for the evidence file (must contain evaluations, distinct_nontrivial, rule, samples)
    pub coverage: Value,
    pub assumptions: Vec<String>,
}

/// Writes evidence, prints KNOWN-FINDING / VIOLATION lines, and exits with the contract's code.
pub fn finish(rc: &RunCtx, out: Outcome) -> ! {
    let known = load_known();
    let mut unknown: Vec<&Violation> = Vec::new();
    let mut known_hits: Vec<(&Known, usize)> = Vec::new();
    for v in &out.violations {
        match known.iter().find(|k| k.property == rc.prop && k.sig == v.sig) {
            Some(k) => match known_hits.iter_mut().find(|(kk, _)| kk.sig == k.sig) {
                Some(h) => h.1 += 1,
                None => known_hits.push((k, 1)),
            },
            None => unknown.push(v),
        }
    }
    let mut coverage = out.coverage.clone();
    coverage["excluded_known"] = json!(known_hits.iter().map(|(k, n)| json!({"sig": k.sig, "cases": n})).collect::<Vec<_>>());
    coverage["violation_signatures"] = json!(out.violations.iter().map(|v| v.sig.clone()).collect::<std::collections::BTreeSet<_>>());
    let ev = json!({
        "property_id": rc.prop,
        "tier": rc.tier.name(),
        "seed": rc.seed,
        "level": "exploration",
        "coverage": coverage,
        "assumptions": out.assumptions,
        "wall_s": (rc.wall() * 100.0).round() / 100.0,
        "violations": unknown.len(),
    });
    if rc.write_evidence {
        std::fs::create_dir_all(format!("{}/evidence", verif())).ok();
        let path = format!("{}/evidence/{}.json", verif(), rc.prop);
        std::fs::write(&path, serde_json::to_string_pretty(&ev).unwrap()).unwrap_or_else(|e| inconclusive(&format!("cannot write evidence: {}", e)));
    }
    for (k, n) in &known_hits {
        println!("KNOWN-FINDING: property={} {} (sig={}, {} case(s) this run)", rc.prop, k.text, k.sig, n);
    }
    if unknown.is_empty() {
        println!(
            "OK property={} tier={} seed={} evaluations={} distinct_nontrivial={} wall={:.1}s",
            rc.prop,
            rc.tier.name(),
            rc.seed,
            ev["coverage"]["evaluations"],
            ev["coverage"]["distinct_nontrivial"],
            rc.wall()
        );
        std::process::exit(0);
    }
    let replay_dir = std::env::var("BBV_REPLAY_DIR").unwrap_or_else(|_| format!("{}/replays", verif()));
    std::fs::create_dir_all(&replay_dir).ok();
    let mut seen = std::collections::BTreeSet::new();
    for v in &unknown {
        if !seen.insert(v.sig.clone()) {
            continue;
        }
        let path = format!("{}/{}-{}.json", replay_dir, rc.prop, sanitize(&v.sig));
        let mut doc = v.replay.clone();
        doc["property"] = json!(rc.prop);
        doc["signature"] = json!(v.sig);
        doc["summary"] = json!(v.summary);
        std::fs::write(&path, serde_json::to_string_pretty(&doc).unwrap()).ok();
        println!("# {}", v.summary.replace('\n', " "));
        println!("VIOLATION property={} replay={}", rc.prop, path);
    }
    std::process::exit(1);
}

pub fn seed_from_env() -> u64 {
    match std::env::var("VERIF_SEED") {
        Ok(s) => s.trim().parse::<u64>().unwrap_or_else(|_| {
            // non-numeric seeds are hashed
            s.bytes().fold(0xcbf29ce484222325u64, |h, b| (h ^ b as u64).wrapping_mul(0x100000001b3))
        }),
        Err(_) => 0,
    }
}
