//! C15: everything but set_ is usable in const context with identical results.
//! For every generated layout the driver draws inputs at generation time and bakes them into the
//! source as literals: a `const` item per operation and a run-time twin evaluating the same
//! expression on black_box'ed inputs. The binary compares const value, run-time value and the model.

use crate::bprops::{run_corpus, summarize, BConfig};
use crate::common::*;
use crate::emit::*;
use crate::gen::*;
use model::render::{render_layout, RenderOpts};
use model::*;
use rt::cases::{conc_raw, conc_val, AbsVal, Ctx};
use rt::exec::{expected_get, model_build, model_write};
use std::fmt::Write as _;

struct ConstGen<'a> {
    ctx: &'a Ctx,
    src: Src<'a>,
    out: Vec<(String, String, String, u128, bool)>, // (const expr, runtime expr, display, expected, nontrivial)
}

/// literal, optionally routed through black_box
fn litx(v: u128, bb: bool) -> String {
    if bb {
        format!("bb({:#x})", v)
    } else {
        format!("{:#x}", v)
    }
}

fn base_val(bits: u32, v: u128, bb: bool) -> String {
    if is_native_width(bits) {
        litx(v, bb)
    } else {
        format!("u{}::new({})", bits, litx(v, bb))
    }
}

fn arg_val(l: &Layout, ty: &FieldTy, v: u128, bb: bool) -> String {
    match ty {
        FieldTy::Bool => {
            if bb {
                format!("bb({})", v != 0)
            } else {
                format!("{}", v != 0)
            }
        }
        FieldTy::UArb { bits, .. } => format!("u{}::new({})", bits, litx(v, bb)),
        FieldTy::UNat { .. } => litx(v, bb),
        FieldTy::INat { bits } => {
            let s = to_signed(v, *bits);
            // i128::MIN cannot be written as a negated literal
            let text = if s == i128::MIN { "i128::MIN".to_string() } else { format!("{}", s) };
            if bb {
                format!("bb({})", text)
            } else {
                format!("({})", text)
            }
        }
        FieldTy::Enum { idx, .. } => {
            let e = &l.enums[*idx];
            let vi = e.lookup(v).expect("const generator: not a discriminant");
            let t = format!("{}::{}", e.name, e.variants[vi].name);
            if bb {
                format!("bb({})", t)
            } else {
                t
            }
        }
        FieldTy::Nested { idx } => {
            let i = &l.inners[*idx];
            format!("{}::new_with_raw_value({})", i.name, base_val(i.base_bits, v, bb))
        }
    }
}

/// encode a getter result as u128 (const-evaluable)
fn get_enc(l: &Layout, ty: &FieldTy, x: &str) -> String {
    match ty {
        FieldTy::Bool => format!("({} as u128)", x),
        FieldTy::UArb { .. } => format!("({}.value() as u128)", x),
        FieldTy::UNat { .. } => format!("({} as u128)", x),
        FieldTy::INat { .. } => format!("({} as i128 as u128)", x),
        FieldTy::Enum { idx, option } => {
            let d = format!("disc_{}", l.enums[*idx].name.to_lowercase());
            if *option {
                format!("(match {} {{ Ok(v) => {}(v), Err(e) => (1u128 << 100) | (e as u128) }})", x, d)
            } else {
                format!("{}({})", d, x)
            }
        }
        FieldTy::Nested { idx } => from_base(l.inners[*idx].base_bits, &format!("{}.raw_value()", x)),
    }
}

fn val_enc(v: &Val) -> u128 {
    match v {
        Val::Bits(b) => *b,
        Val::Signed(s) => *s as u128,
        Val::Ok(d) => *d,
        Val::Err(x) => (1u128 << 100) | *x,
        Val::Panic => u128::MAX,
    }
}

impl<'a> ConstGen<'a> {
    fn absval(&mut self) -> AbsVal {
        AbsVal { mode: self.src.word() as u8, bits: self.src.u128() }
    }
    fn raw(&mut self) -> u128 {
        let a = self.absval();
        let idx = self.src.word() as u16;
        conc_raw(self.ctx, &a, idx)
    }
    fn push(&mut self, f: &dyn Fn(bool) -> String, expected: u128, nontrivial: bool) {
        self.out.push((f(false), f(true), f(false), expected, nontrivial));
    }
}

pub fn const_items(id: usize, l: &Layout, words: &[u32]) -> String {
    let _ = id;
    let ctx = Ctx::new(l.clone());
    let mut g = ConstGen { ctx: &ctx, src: Src::new(words), out: Vec::new() };
    let b = l.base_bits;
    let sraw = |x: &str| from_base(b, &format!("{}.raw_value()", x));
    // ZERO, DEFAULT, new()
    g.push(&|_| sraw("S::ZERO"), 0, false);
    if l.default.is_some() {
        let d = l.default_value();
        g.push(&|_| sraw("S::DEFAULT"), d, false);
        g.push(&|_| sraw("S::new()"), d, false);
    }
    // raw round trip
    for _ in 0..2 {
        let r = g.raw();
        g.push(&|bb| sraw(&format!("S::new_with_raw_value({})", base_val(b, r, bb))), r, false);
    }
    // getters
    let readable: Vec<usize> = (0..l.fields.len()).filter(|i| l.fields[*i].access.readable()).collect();
    let writable: Vec<usize> = (0..l.fields.len()).filter(|i| l.fields[*i].access.writable()).collect();
    for fi in readable.iter().take(6) {
        let f = &l.fields[*fi];
        let r = g.raw();
        let i = g.src.below(f.count()) as usize;
        let exp = val_enc(&expected_get(&ctx, r, *fi, i));
        let call = |bb: bool| {
            let obj = format!("S::new_with_raw_value({})", base_val(b, r, bb));
            let c = if f.is_array() { format!("{}.{}({})", obj, f.name, i) } else { format!("{}.{}()", obj, f.name) };
            get_enc(l, &f.ty, &c)
        };
        g.push(&call, exp, false);
    }
    // with_ (and read back through another getter when possible)
    for fi in writable.iter().take(6) {
        let f = &l.fields[*fi];
        let r = g.raw();
        let i = g.src.below(f.count()) as usize;
        let av = g.absval();
        let v = conc_val(&ctx.fields[*fi], &av);
        let m = method_name(f);
        let new_raw = model_write(&ctx, r, *fi, i, v);
        let with = |bb: bool| {
            let obj = format!("S::new_with_raw_value({})", base_val(b, r, bb));
            if f.is_array() {
                format!("{}.with_{}({}, {})", obj, m, i, arg_val(l, &f.ty, v, bb))
            } else {
                format!("{}.with_{}({})", obj, m, arg_val(l, &f.ty, v, bb))
            }
        };
        g.push(&|bb| sraw(&with(bb)), new_raw, false);
        if let Some(gi) = readable.first() {
            let gf = &l.fields[*gi];
            let exp = val_enc(&expected_get(&ctx, new_raw, *gi, 0));
            let call = |bb: bool| {
                let c = if gf.is_array() { format!("{}.{}(0)", with(bb), gf.name) } else { format!("{}.{}()", with(bb), gf.name) };
                get_enc(l, &gf.ty, &c)
            };
            g.push(&call, exp, r != 0);
        }
    }
    // builder chain
    if rules::builder_expected(l) {
        for _ in 0..2 {
            let mut args: Vec<Vec<H>> = Vec::new();
            for wf in &writable {
                let fc = &ctx.fields[*wf];
                let mut a = Vec::new();
                for _ in 0..fc.count {
                    let av = g.absval();
                    a.push(H(conc_val(fc, &av)));
                }
                args.push(a);
            }
            let exp = model_build(&ctx, &args);
            let chain = |bb: bool| {
                let mut s = "S::builder()".to_string();
                for (n, wf) in writable.iter().enumerate() {
                    let f = &l.fields[*wf];
                    if f.is_array() {
                        let items: Vec<String> = args[n].iter().map(|h| arg_val(l, &f.ty, h.0, bb)).collect();
                        write!(s, ".with_{}([{}])", method_name(f), items.join(", ")).unwrap();
                    } else {
                        write!(s, ".with_{}({})", method_name(f), arg_val(l, &f.ty, args[n][0].0, bb)).unwrap();
                    }
                }
                s.push_str(".build()");
                s
            };
            g.push(&|bb| sraw(&chain(bb)), exp, true);
            if let Some(gi) = readable.first() {
                let gf = &l.fields[*gi];
                let e2 = val_enc(&expected_get(&ctx, exp, *gi, 0));
                let call = |bb: bool| {
                    let c = if gf.is_array() { format!("{}.{}(0)", chain(bb), gf.name) } else { format!("{}.{}()", chain(bb), gf.name) };
                    get_enc(l, &gf.ty, &c)
                };
                g.push(&call, e2, true);
            }
        }
    }
    // both bitenum conversions
    for e in &l.enums {
        let d = format!("disc_{}", e.name.to_lowercase());
        let table = e.table();
        let m = mask(e.bits);
        let mut xs: Vec<u128> = vec![table[0].0, g.src.u128() & m, m, 0];
        xs.dedup();
        for x in xs {
            let hit = e.lookup(x).is_some();
            let exp = if hit || e.returns_plain() { x } else { (1u128 << 100) | x };
            let call = |bb: bool| {
                let c = format!("{}::new_with_raw_value({})", e.name, base_val(e.bits, x, bb));
                if e.returns_plain() {
                    format!("{}({})", d, c)
                } else {
                    format!("(match {} {{ Ok(v) => {}(v), Err(r) => (1u128 << 100) | (r as u128) }})", c, d)
                }
            };
            g.push(&call, exp, false);
        }
        for (disc, vi) in table.iter().take(3) {
            let vname = format!("{}::{}", e.name, e.variants[*vi].name);
            let call = |bb: bool| from_base(e.bits, &format!("{}.raw_value()", if bb { format!("bb({})", vname) } else { vname.clone() }));
            g.push(&call, *disc, false);
        }
    }
    // emit
    let mut s = String::new();
    writeln!(s, "use ::core::hint::black_box as bb;").unwrap();
    for (k, (c, r, _, _, _)) in g.out.iter().enumerate() {
        writeln!(s, "pub const C{}: u128 = {};", k, c).unwrap();
        writeln!(s, "fn t{}() -> u128 {{ {} }}", k, r).unwrap();
    }
    writeln!(s, "fn consts() -> Vec<rt::ConstCase> {{ vec![").unwrap();
    for (k, (_, _, disp, exp, nt)) in g.out.iter().enumerate() {
        writeln!(
            s,
            "    rt::ConstCase {{ name: \"C{}\", expr: r####\"{}\"####, const_val: C{}, run: t{}, expected: {:#x}u128, nontrivial: {} }},",
            k, disp, k, k, exp, nt
        )
        .unwrap();
    }
    writeln!(s, "] }}").unwrap();
    s
}

pub fn corpus_c15(tier: Tier, seed: u64) -> Vec<(usize, Layout)> {
    let n = tier.pick(600usize, 9000usize);
    let mut v: Vec<Layout> = Vec::new();
    let mut p = Profile::general();
    p.kinds = [3, 5, 3, 3, 2, 2, 2];
    p.shapes = [5, 3, 2, 1];
    p.access = AccessMode::Mixed;
    p.max_fields = 5;
    v.extend(sample_choices(seed, 21, n / 2, 320).iter().map(|w| build_layout(&p, w)));
    p.need_builder = true;
    p.access = AccessMode::AllRW;
    v.extend(sample_choices(seed, 22, n / 2, 320).iter().map(|w| build_layout(&p, w)));
    // systematic: signed fields (plain, arrays, range lists with a piece one bit narrower than the type)
    v.extend(crate::corpus::sys_signed(Tier::Quick).into_iter().step_by(tier.pick(4, 1)));
    // systematic: complete coverage without default on arbitrary-int and native bases (builder() start value)
    for b in [1u32, 7, 9, 24, 33, 65, 127, 8, 64, 128] {
        let h = (b / 2).max(1);
        if b >= 2 {
            v.push(crate::corpus::lay(b, vec![crate::corpus::fld("lo", 0, h, crate::corpus::uty(h), Access::RW), crate::corpus::fld("hi", h, b - h, crate::corpus::uty(b - h), Access::RW)]));
        } else {
            v.push(crate::corpus::lay(b, vec![crate::corpus::fld("all", 0, 1, FieldTy::Bool, Access::RW)]));
        }
    }
    // systematic: builder steps over very long arrays (const evaluation has its own limits)
    for (b, w, k) in [(128u32, 1u32, 128u32), (127, 1, 127), (128, 4, 32), (128, 2, 64), (64, 1, 64), (125, 1, 125), (126, 3, 42)] {
        let ty = if w == 1 && b % 2 == 0 { FieldTy::Bool } else { crate::corpus::uty(w) };
        let mut f = crate::corpus::fld("arr", 0, w, ty, Access::RW);
        f.array = Some(ArrayDecl { count: k, stride: None, colon: false });
        let mut l = crate::corpus::lay(b, vec![f]);
        if (k * w) < b {
            l.default = Some(DefaultDecl { value: 0, named_const: false, radix: 10, const_name: None });
        }
        v.push(l);
    }
    // systematic: many fields (const builder chains of up to 128 steps), long range lists, deep nesting
    for (k, mut l) in crate::corpus::sys_many_fields(Access::RW).into_iter().step_by(tier.pick(2, 1)).chain(crate::corpus::sys_long_lists().into_iter().step_by(tier.pick(3, 1))).chain(crate::corpus::sys_deep_nesting(false)).enumerate() {
        if !model::rules::builder_expected(&l) && k % 2 == 0 {
            l.default = Some(DefaultDecl { value: l.base_mask() / 3, named_const: false, radix: 16, const_name: None });
        }
        v.push(l);
    }
    v.into_iter().enumerate().collect()
}

pub fn run(rc: &RunCtx) -> Outcome {
    let layouts = corpus_c15(rc.tier, rc.seed);
    let ro = RenderOpts::default();
    for (id, l) in &layouts {
        if !rules::layout_verdict(l).is_valid() {
            inconclusive(&format!("generator bug: layout {} invalid\n{}", id, render_layout(l, &ro)));
        }
    }
    let words = sample_choices(rc.seed, 23, layouts.len(), 400);
    let cfg = BConfig { emit: EmitOpts::none(), profiles: rc.tier.pick(vec!["dev"], vec!["dev", "release"]), cases: 1, max_ops: 1, exh_budget: 1, ncrates: 16, tolerant: false };
    let f = |id: usize, l: &Layout| -> Option<String> { Some(const_items(id, l, &words[id % words.len()])) };
    let out = run_corpus(rc, &cfg, &layouts, "b", &[], Some(&f));
    let mut o = summarize(rc, &cfg, &layouts, out);
    o.coverage["rule"] = serde_json::json!("cases = (declaration, const item): for every generated declaration one `const C_k: u128 = <expr>;` per operation kind (ZERO, DEFAULT, new(), new_with_raw_value/raw_value, each getter, each with_, with_ followed by a getter, the full builder chain and build(), both bitenum conversions) with inputs drawn at generation time and baked in as literals, plus a run-time twin evaluating the same expression on black_box'ed inputs; the binary compares const value, run-time value and the value predicted by the model. A generated operation that is not const fn makes the declaration's module fail to compile, which is reported as a violation. Non-trivial: expressions chaining a with_/builder step and a getter on a non-zero raw value; distinct by (declaration, expression)");
    o
}
