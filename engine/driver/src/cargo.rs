//! Running cargo offline and reading rustc's JSON diagnostics.

use serde_json::Value;
use std::path::Path;
use std::process::{Command, Stdio};

#[derive(Clone, Debug)]
pub struct SpanRef {
    pub file: String,
    pub line_start: u32,
    pub line_end: u32,
    pub primary: bool,
}

#[derive(Clone, Debug)]
pub struct Diag {
    pub level: String,
    pub message: String,
    pub code: Option<String>,
    /// spans in order of preference: primary first; each followed by its macro-expansion chain (outwards)
    pub spans: Vec<SpanRef>,
    pub package: String,
}

pub struct CargoOut {
    pub success: bool,
    pub diags: Vec<Diag>,
    pub stderr: String,
    pub wall_s: f64,
}

fn collect_span(v: &Value, primary: bool, out: &mut Vec<SpanRef>) {
    let file = v["file_name"].as_str().unwrap_or("").to_string();
    out.push(SpanRef {
        file,
        line_start: v["line_start"].as_u64().unwrap_or(0) as u32,
        line_end: v["line_end"].as_u64().unwrap_or(0) as u32,
        primary,
    });
    if let Some(exp) = v.get("expansion") {
        if !exp.is_null() {
            collect_span(&exp["span"], primary, out);
        }
    }
}

pub fn target_root() -> String {
    std::env::var("BBV_TARGET_DIR").unwrap_or_else(|_| format!("{}/target", crate::common::verif()))
}

/// `cargo <args> --message-format=json --offline` in `dir`.
pub fn cargo(dir: &Path, toolchain: Option<&str>, args: &[&str], target_sub: &str, extra_env: &[(&str, &str)]) -> CargoOut {
    let t0 = std::time::Instant::now();
    let mut cmd = Command::new("cargo");
    if let Some(tc) = toolchain {
        cmd.arg(format!("+{}", tc));
    }
    cmd.args(args);
    cmd.current_dir(dir)
        .env("CARGO_NET_OFFLINE", "true")
        .env("CARGO_TARGET_DIR", format!("{}/{}", target_root(), target_sub))
        .env("CARGO_INCREMENTAL", "0")
        .env("CARGO_TERM_COLOR", "never")
        .env_remove("RUSTFLAGS")
        .stdout(Stdio::piped())
        .stderr(Stdio::piped());
    for (k, v) in extra_env {
        cmd.env(k, v);
    }
    let out = match cmd.output() {
        Ok(o) => o,
        Err(e) => {
            return CargoOut { success: false, diags: vec![], stderr: format!("cannot run cargo: {}", e), wall_s: 0.0 };
        }
    };
    let stdout = String::from_utf8_lossy(&out.stdout);
    let mut diags = Vec::new();
    for line in stdout.lines() {
        if !line.starts_with('{') {
            continue;
        }
        let v: Value = match serde_json::from_str(line) {
            Ok(v) => v,
            Err(_) => continue,
        };
        if v["reason"] != "compiler-message" {
            continue;
        }
        let m = &v["message"];
        let mut spans = Vec::new();
        if let Some(arr) = m["spans"].as_array() {
            for sp in arr.iter().filter(|s| s["is_primary"] == true) {
                collect_span(sp, true, &mut spans);
            }
            for sp in arr.iter().filter(|s| s["is_primary"] != true) {
                collect_span(sp, false, &mut spans);
            }
        }
        diags.push(Diag {
            level: m["level"].as_str().unwrap_or("").to_string(),
            message: m["message"].as_str().unwrap_or("").to_string(),
            code: m["code"]["code"].as_str().map(|s| s.to_string()),
            spans,
            package: v["package_id"].as_str().unwrap_or("").to_string(),
        });
    }
    let stderr = String::from_utf8_lossy(&out.stderr).to_string();
    CargoOut { success: out.status.success(), diags, stderr, wall_s: t0.elapsed().as_secs_f64() }
}

/// Errors grouped by the generated module file (`src/<module>.rs`) they are attributed to.
/// Returns (module -> list of (line, message)), unattributed error messages.
pub fn attribute(diags: &[Diag]) -> (std::collections::BTreeMap<String, Vec<(u32, String)>>, Vec<String>) {
    let mut by_mod: std::collections::BTreeMap<String, Vec<(u32, String)>> = Default::default();
    let mut un = Vec::new();
    for d in diags {
        if d.level != "error" {
            continue;
        }
        if d.message.starts_with("aborting due to") || d.message.starts_with("could not compile") {
            continue;
        }
        let mut hit = false;
        // primary spans first (they come first in d.spans)
        for sp in &d.spans {
            if let Some(m) = module_of(&sp.file) {
                by_mod.entry(m).or_default().push((sp.line_start, format!("{}{}", d.code.as_ref().map(|c| format!("[{}] ", c)).unwrap_or_default(), d.message)));
                hit = true;
                break;
            }
        }
        if !hit {
            un.push(format!("{} @ {:?}", d.message, d.spans.first().map(|s| (&s.file, s.line_start))));
        }
    }
    (by_mod, un)
}

/// "src/d12.rs" -> Some("d12"); lib.rs / main.rs / foreign files -> None
pub fn module_of(file: &str) -> Option<String> {
    let f = file.replace('\\', "/");
    let idx = f.rfind("src/")?;
    if idx != 0 && !f[..idx].ends_with('/') {
        return None;
    }
    // only files of the crate being compiled have relative paths
    if f.starts_with('/') {
        return None;
    }
    let rest = &f[idx + 4..];
    let stem = rest.strip_suffix(".rs")?;
    if stem == "lib" || stem == "main" || stem.contains('/') {
        return None;
    }
    Some(stem.to_string())
}

pub fn tail(s: &str, n: usize) -> String {
    let lines: Vec<&str> = s.lines().collect();
    let from = lines.len().saturating_sub(n);
    lines[from..].join("\n")
}
