//! Verdict pipeline (V-crates): which declarations / probe functions compile, read from rustc's
//! JSON diagnostics. Used by C09, C10, C14, C17 (and the overhang probes of C11).

use crate::cargo::{self, cargo};
use crate::common::*;
use crate::emit::*;
use serde_json::Value;
use std::collections::{BTreeMap, BTreeSet};
use std::path::PathBuf;

#[derive(Clone, Debug)]
pub struct Probe {
    pub name: String,
    /// one line of Rust: a complete fn item
    pub code: String,
    pub must_compile: bool,
    pub what: String,
}

#[derive(Clone, Debug)]
pub struct VItem {
    pub id: usize,
    /// declaration text (aux types + the item under test)
    pub source: String,
    pub probes: Vec<Probe>,
}

/// declaration wrapped in its own module; probes live outside and see only the public API
pub fn wrap_decl(source: &str) -> String {
    format!("#![allow(dead_code, unused_imports, unused_variables, deprecated, non_camel_case_types)]\nuse arbitrary_int::*;\npub mod decl {{\n#![allow(dead_code, unused_imports, non_camel_case_types, non_upper_case_globals)]\nuse arbitrary_int::*;\n{}\n}}\nuse decl::*;\n", source)
}

pub const V_PRELUDE: &str = "#![allow(dead_code, unused_imports, unused_variables, deprecated, non_camel_case_types)]\nuse arbitrary_int::*;\n";

/// "dev" / "release": profile the proc-macro (and the generated crates) are compiled in; suffix "-tests": the
/// crates are checked as test targets (cfg(test)); suffix "-asdep": the crates are compiled as dependencies of
/// `<name>_dep` instead of as primary packages
fn check_args(macro_profile: &str, crate_name: &str) -> Vec<String> {
    let mut a: Vec<String> = vec!["check".into(), "--offline".into(), "--keep-going".into(), "--message-format=json".into()];
    if macro_profile.starts_with("release") {
        a.push("--release".into());
    }
    if macro_profile.ends_with("-tests") {
        a.push("--tests".into());
    }
    if macro_profile.ends_with("-asdep") {
        a.push("-p".into());
        a.push(format!("{}_dep", crate_name));
    }
    a
}

fn run_check(dir: &std::path::Path, macro_profile: &str, crate_name: &str) -> cargo::CargoOut {
    let args = check_args(macro_profile, crate_name);
    let argv: Vec<&str> = args.iter().map(|s| s.as_str()).collect();
    cargo(dir, None, &argv, "gen", &[])
}

fn is_macro_broken(out: &cargo::CargoOut) -> bool {
    out.diags.iter().any(|d| d.level == "error" && d.package.contains("bitbybit") && !d.package.contains("vcrate")) || out.stderr.contains("could not compile `bitbybit`")
}

/// Stage 1: which declarations are accepted? Returns id -> error messages (empty = accepted).
/// Iterates until the set of accepted declarations compiles together without any error, so that an
/// early-phase error in one module cannot hide a late-phase error in another.
pub fn check_decls(rc: &RunCtx, tag: &str, items: &[(usize, String)], macro_profile: &str) -> BTreeMap<usize, Vec<String>> {
    let dir: PathBuf = rc.work.join(format!("{}-{}", tag, macro_profile));
    let mut verdict: BTreeMap<usize, Vec<String>> = BTreeMap::new();
    let mut live: Vec<(usize, String)> = items.to_vec();
    let mut rounds = 0;
    while !live.is_empty() {
        rounds += 1;
        let files: Vec<(String, String)> = live.iter().map(|(id, src)| (format!("d{}", id), format!("{}{}", V_PRELUDE, src))).collect();
        let cname = format!("vcrate_{}_{}", rc.prop.to_lowercase(), tag.replace('-', "_"));
        write_v_crate(&dir, &cname, &files, false, false);
        let out = run_check(&dir, macro_profile, &cname);
        if is_macro_broken(&out) {
            inconclusive(&format!("the bitbybit crate does not build from /repo: {}", cargo::tail(&out.stderr, 5)));
        }
        let (by_mod, un) = cargo::attribute(&out.diags);
        if out.success {
            for (id, _) in &live {
                verdict.insert(*id, vec![]);
            }
            break;
        }
        if by_mod.is_empty() {
            inconclusive(&format!("verdict crate {} fails without attributable errors: {:?} {}", tag, un.iter().take(3).collect::<Vec<_>>(), cargo::tail(&out.stderr, 6)));
        }
        let mut rejected = BTreeSet::new();
        for (m, msgs) in by_mod {
            if let Some(id) = m.strip_prefix('d').and_then(|x| x.parse::<usize>().ok()) {
                verdict.insert(id, msgs.into_iter().map(|(l, t)| format!("line {}: {}", l, t)).collect());
                rejected.insert(id);
            }
        }
        live.retain(|(id, _)| !rejected.contains(id));
        if rounds > 12 {
            inconclusive("verdict crate did not converge");
        }
        rc.watchdog();
    }
    verdict
}

pub struct ProbeVerdicts {
    /// (item id, probe index) -> error messages (empty = compiles)
    pub by_probe: BTreeMap<(usize, usize), Vec<String>>,
    /// errors attributed to an item but to no probe line (declaration itself)
    pub stray: BTreeMap<usize, Vec<String>>,
}

/// Stage 2: declarations (known to be accepted) plus their probe functions.
/// Must-compile probes are checked first on their own (they have to compile together); then each
/// must-fail probe is added and has to draw an error on its own line.
pub fn check_probes(rc: &RunCtx, tag: &str, items: &[VItem], macro_profile: &str) -> ProbeVerdicts {
    let mut res = ProbeVerdicts { by_probe: BTreeMap::new(), stray: BTreeMap::new() };
    for pass in 0..2 {
        // pass 0: only must-compile probes; pass 1: only must-fail probes
        let dir: PathBuf = rc.work.join(format!("{}-p{}-{}", tag, pass, macro_profile));
        let mut files = Vec::new();
        let mut line_map: BTreeMap<(usize, u32), usize> = BTreeMap::new();
        for it in items {
            let mut src = wrap_decl(&it.source);
            if !src.ends_with('\n') {
                src.push('\n');
            }
            let mut line = src.lines().count() as u32;
            let mut any = false;
            for (k, p) in it.probes.iter().enumerate() {
                if p.must_compile != (pass == 0) {
                    continue;
                }
                assert!(!p.code.contains('\n'));
                line += 1;
                src.push_str(&p.code);
                src.push('\n');
                line_map.insert((it.id, line), k);
                any = true;
            }
            if any {
                files.push((format!("d{}", it.id), src));
            }
        }
        if files.is_empty() {
            continue;
        }
        let cname = format!("vcrate_{}_{}_p{}", rc.prop.to_lowercase(), tag.replace('-', "_"), pass);
        write_v_crate(&dir, &cname, &files, false, false);
        let out = run_check(&dir, macro_profile, &cname);
        if is_macro_broken(&out) {
            inconclusive(&format!("the bitbybit crate does not build from /repo: {}", cargo::tail(&out.stderr, 5)));
        }
        let (by_mod, un) = cargo::attribute(&out.diags);
        if !out.success && by_mod.is_empty() {
            inconclusive(&format!("probe crate {} fails without attributable errors: {:?}", tag, un.iter().take(3).collect::<Vec<_>>()));
        }
        for it in items {
            for (k, p) in it.probes.iter().enumerate() {
                if p.must_compile == (pass == 0) {
                    res.by_probe.insert((it.id, k), vec![]);
                }
            }
        }
        for (m, msgs) in by_mod {
            if let Some(id) = m.strip_prefix('d').and_then(|x| x.parse::<usize>().ok()) {
                for (l, t) in msgs {
                    match line_map.get(&(id, l)) {
                        Some(k) => res.by_probe.entry((id, *k)).or_default().push(t),
                        None => res.stray.entry(id).or_default().push(format!("line {}: {}", l, t)),
                    }
                }
            }
        }
        rc.watchdog();
    }
    res
}

/// Isolated re-check of a single declaration (+ optional single probe): returns error messages.
pub fn check_isolated(rc: &RunCtx, source: &str, probe: Option<&str>, macro_profile: &str) -> Vec<String> {
    let dir: PathBuf = rc.work.join(format!("iso-{}", macro_profile));
    let mut src = if probe.is_some() { wrap_decl(source) } else { format!("{}{}", V_PRELUDE, source) };
    if let Some(p) = probe {
        if !src.ends_with('\n') {
            src.push('\n');
        }
        src.push_str(p);
        src.push('\n');
    }
    let cname = format!("vcrate_{}_iso", rc.prop.to_lowercase());
    write_v_crate(&dir, &cname, &[("d0".to_string(), src)], false, false);
    let out = run_check(&dir, macro_profile, &cname);
    if is_macro_broken(&out) {
        inconclusive(&format!("the bitbybit crate does not build from /repo: {}", cargo::tail(&out.stderr, 5)));
    }
    if out.success {
        return vec![];
    }
    let (by_mod, un) = cargo::attribute(&out.diags);
    let mut msgs: Vec<String> = by_mod.into_iter().flat_map(|(_, v)| v.into_iter().map(|(l, t)| format!("line {}: {}", l, t))).collect();
    msgs.extend(un);
    if msgs.is_empty() {
        msgs.push(cargo::tail(&out.stderr, 3));
    }
    msgs
}

/// Isolated re-check of a disagreement seen in a batch. The batch crate had one of several build contexts (edition,
/// rust-version); the isolated crate tries them in turn and stops at the first in which the disagreement shows
/// again (`reproduces`), so that a fault tied to one context is confirmed rather than dismissed as an artefact.
pub fn check_isolated_contexts(rc: &RunCtx, source: &str, probe: Option<&str>, macro_profile: &str, reproduces: &dyn Fn(&[String]) -> bool) -> Vec<String> {
    use std::sync::atomic::Ordering;
    let mut last = Vec::new();
    for ctx in [0usize, 1, 3] {
        crate::emit::ISO_CONTEXT.store(ctx, Ordering::Relaxed);
        last = check_isolated(rc, source, probe, macro_profile);
        if reproduces(&last) {
            break;
        }
    }
    crate::emit::ISO_CONTEXT.store(0, Ordering::Relaxed);
    last
}

/// Isolated check of one documented declaration inside a crate with the given crate-level regime.
pub fn check_isolated_opts(rc: &RunCtx, source: &str, no_std: bool, deny_docs: bool) -> Vec<String> {
    let dir: PathBuf = rc.work.join("iso-regime");
    let src = format!("//! generated module\n#![allow(unused_imports)]\nuse arbitrary_int::*;\n{}", source);
    let cname = format!("vcrate_{}_isor", rc.prop.to_lowercase());
    write_v_crate(&dir, &cname, &[("d0".to_string(), src)], no_std, deny_docs);
    let out = run_check(&dir, "dev", &cname);
    if is_macro_broken(&out) {
        inconclusive(&format!("the bitbybit crate does not build from /repo: {}", cargo::tail(&out.stderr, 5)));
    }
    if out.success {
        return vec![];
    }
    let (by_mod, un) = cargo::attribute(&out.diags);
    let mut msgs: Vec<String> = by_mod.into_iter().flat_map(|(_, v)| v.into_iter().map(|(l, t)| format!("line {}: {}", l, t))).collect();
    msgs.extend(un);
    if msgs.is_empty() {
        msgs.push(cargo::tail(&out.stderr, 3));
    }
    msgs
}

pub fn warm(rc: &RunCtx) {
    let items = vec![(0usize, "#[bitbybit::bitfield(u8)]\npub struct S {\n    #[bits(0..=3, rw)]\n    a: u4,\n}\n".to_string())];
    for mp in ["dev", "release"] {
        let v = check_decls(rc, "warm", &items, mp);
        println!("warm: verdict crate ({}) -> {} accepted", mp, v.values().filter(|e| e.is_empty()).count());
    }
}

pub fn replay_doc(rc: &RunCtx, kind: &str, doc: &Value) -> Result<(), String> {
    match kind {
        "verdict" => {
            let source = doc["source"].as_str().unwrap_or_else(|| inconclusive("replay without source"));
            let expect_accept = doc["expect_accept"].as_bool().unwrap_or(false);
            let mp = doc["macro_profile"].as_str().unwrap_or("dev");
            let probe = doc["probe"].as_str();
            let msgs = check_isolated_contexts(rc, source, probe, mp, &|m: &[String]| m.is_empty() != expect_accept);
            let accepted = msgs.is_empty();
            if accepted != expect_accept {
                return Err(format!(
                    "expected {}, observed {} (macro profile {}): {:?}",
                    if expect_accept { "compiles" } else { "compile error" },
                    if accepted { "compiles" } else { "compile error" },
                    mp,
                    msgs.first()
                ));
            }
            Ok(())
        }
        "profile-consistency" => {
            let source = doc["source"].as_str().unwrap_or_else(|| inconclusive("replay without source"));
            let dev = check_isolated(rc, source, None, "dev");
            let rel = check_isolated(rc, source, None, "release");
            if dev.is_empty() != rel.is_empty() {
                return Err(format!(
                    "macro built in dev: {}; macro built in release: {}: {:?}",
                    if dev.is_empty() { "compiles" } else { "compile error" },
                    if rel.is_empty() { "compiles" } else { "compile error" },
                    dev.first().or(rel.first())
                ));
            }
            Ok(())
        }
        "regime" | "expansion" => crate::c18::replay_doc(rc, doc),
        other => inconclusive(&format!("unknown replay kind {}", other)),
    }
}
