//! C10 (bitenum acceptance), C14 (builder availability and completeness), C17 (access specifiers).

use crate::common::*;
use crate::corpus::*;
use crate::emit::method_name;
use crate::eprops;
use crate::gen::*;
use crate::vprops::*;
use model::render::{render_enum, render_layout, RenderOpts};
use model::rules::{builder_expected, enum_verdict, layout_verdict, Verdict};
use model::*;
use serde_json::{json, Value};
use std::collections::BTreeMap;

/// second pass: the macro built in the release profile (no overflow checks inside the macro) *and* the generated
/// crates compiled as dependencies rather than as primary packages
pub const MACRO_PROFILES: [&str; 2] = ["dev", "release-asdep"];

/// a constant expression of the field's setter type
pub fn arg_expr(l: &Layout, ty: &FieldTy) -> String {
    match ty {
        FieldTy::Bool => "true".to_string(),
        FieldTy::UArb { bits, .. } => format!("u{}::new(1)", bits),
        FieldTy::UNat { .. } => "1".to_string(),
        FieldTy::INat { .. } => "-1".to_string(),
        FieldTy::Enum { idx, .. } => {
            let e = &l.enums[*idx];
            let v = e.variants.iter().find(|v| v.cfg != Cfg::Never).expect("enum without enabled variant");
            format!("{}::{}", e.name, v.name)
        }
        FieldTy::Nested { idx } => {
            let i = &l.inners[*idx];
            if i.handwritten != 0 {
                // a hand-written field type offers the two conversions and nothing else
                format!("{}::new_with_raw_value({})", i.name, crate::emit::to_base(i.base_bits, "0u128"))
            } else {
                format!("{}::ZERO", i.name)
            }
        }
    }
}

pub fn field_arg(l: &Layout, f: &Field) -> String {
    let a = arg_expr(l, &f.ty);
    match &f.array {
        Some(arr) => format!("[{}; {}]", a, arr.count),
        None => a,
    }
}

fn chain(l: &Layout, steps: &[usize]) -> String {
    let mut s = "S::builder()".to_string();
    for fi in steps {
        let f = &l.fields[*fi];
        s.push_str(&format!(".with_{}({})", method_name(f), field_arg(l, f)));
    }
    s
}

struct Disagreement {
    sig: String,
    summary: String,
    source: String,
    probe: Option<String>,
    expect_accept: bool,
    mp: String,
    extra: Value,
}

/// confirm each disagreement in isolation (at most `per_sig` per signature) and turn it into a violation
fn confirm(rc: &RunCtx, ds: Vec<Disagreement>, per_sig: u32, checked: &mut u64, dups: &mut u64) -> Vec<Violation> {
    let mut out = Vec::new();
    let mut n: BTreeMap<String, u32> = BTreeMap::new();
    for d in ds {
        let c = n.entry(d.sig.clone()).or_insert(0);
        if *c >= per_sig {
            *dups += 1;
            continue;
        }
        *checked += 1;
        let expect_accept = d.expect_accept;
        let msgs = check_isolated_contexts(rc, &d.source, d.probe.as_deref(), &d.mp, &|m: &[String]| m.is_empty() != expect_accept);
        if msgs.is_empty() == d.expect_accept {
            continue; // not reproduced in isolation: the batch verdict was an artefact
        }
        *c += 1;
        let mut replay = json!({"kind": "verdict", "source": d.source, "probe": d.probe, "expect_accept": d.expect_accept, "macro_profile": d.mp, "observed_errors": msgs});
        if let Value::Object(m) = d.extra {
            for (k, v) in m {
                replay[k] = v;
            }
        }
        out.push(Violation { sig: d.sig, summary: d.summary, replay });
    }
    out
}

// =============================================================================================
// C14

fn c14_systematic() -> Vec<Layout> {
    let mut v = Vec::new();
    for b in [8u32, 16, 32, 64, 128, 7, 9, 24, 33, 65, 127] {
        let h = b / 2;
        // complete: two fields covering everything
        v.push(lay(b, vec![fld("a", 0, h, uty(h), Access::RW), fld("b", h, b - h, uty(b - h), Access::W)]));
        // one bit missing at the top / bottom / middle
        if b >= 4 {
            v.push(lay(b, vec![fld("a", 0, h, uty(h), Access::RW), fld("b", h, b - h - 1, uty(b - h - 1), Access::RW)]));
            v.push(lay(b, vec![fld("a", 1, h - 1, uty(h - 1), Access::RW), fld("b", h, b - h, uty(b - h), Access::RW)]));
            v.push(lay(b, vec![fld("a", 0, h - 1, uty(h - 1), Access::RW), fld("b", h, b - h, uty(b - h), Access::RW)]));
            // the missing bit is covered by a read-only field only
            v.push(lay(b, vec![fld("a", 0, h - 1, uty(h - 1), Access::RW), fld("r", h - 1, 1, FieldTy::Bool, Access::R), fld("b", h, b - h, uty(b - h), Access::RW)]));
            // overlapping by exactly one bit
            v.push(lay(b, vec![fld("a", 0, h + 1, uty(h + 1), Access::RW), fld("b", h, b - h, uty(b - h), Access::RW)]));
            // read-only field over writable bits must not matter
            v.push(lay(b, vec![fld("a", 0, h, uty(h), Access::RW), fld("b", h, b - h, uty(b - h), Access::RW), fld("r", 1, 2, uty(2), Access::R)]));
            // overlap between a write-only and a read-write field
            v.push(lay(b, vec![fld("a", 0, h, uty(h), Access::W), fld("b", h - 1, b - h + 1, uty(b - h + 1), Access::RW)]));
        }
        // a single field as wide as the base
        v.push(lay(b, vec![fld("all", 0, b, uty(b), Access::RW)]));
        // array covering everything / leaving the top bit
        if b % 4 == 0 {
            let mut a = fld("n", 0, 4, uty(4), Access::RW);
            a.array = Some(ArrayDecl { count: b / 4, stride: None, colon: false });
            v.push(lay(b, vec![a.clone()]));
            let mut a2 = a.clone();
            a2.array = Some(ArrayDecl { count: b / 4 - 1, stride: None, colon: false });
            if b / 4 - 1 >= 2 {
                v.push(lay(b, vec![a2]));
            }
            // array element overlapping a scalar by one bit
            if b >= 16 {
                let mut a3 = fld("n", 0, 4, uty(4), Access::RW);
                a3.array = Some(ArrayDecl { count: 2, stride: None, colon: false });
                v.push(lay(b, vec![a3.clone(), fld("s", 7, b - 7, uty(b - 7), Access::RW)]));
                v.push(lay(b, vec![a3, fld("s", 8, b - 8, uty(b - 8), Access::RW)]));
            }
        }
        if b >= 16 {
            // self-overlapping range list, non-array (bits 2..=3 named twice) and array form
            let so = Field { name: "x".into(), kw_bit: false, list: true, ranges: vec![Rng::new(0, 3), Rng::new(2, 5)], array: None, ty: uty(8), access: Access::RW, arg_order: 0, opt_path: 0, huge: None, zero_pad: false };
            v.push(lay(b, vec![so.clone()]));
            let mut soa = so.clone();
            soa.array = Some(ArrayDecl { count: 2, stride: Some(8), colon: false });
            v.push(lay(b, vec![soa]));
            // the same ranges without the overlap
            let ok = Field { name: "x".into(), kw_bit: false, list: true, ranges: vec![Rng::new(0, 3), Rng::new(4, 7)], array: None, ty: uty(8), access: Access::RW, arg_order: 0, opt_path: 0, huge: None, zero_pad: false };
            v.push(lay(b, vec![ok.clone()]));
            // list array whose elements collide through the stride (element 1 re-uses bits of element 0)
            let coll = Field { name: "x".into(), kw_bit: false, list: true, ranges: vec![Rng::new(0, 1), Rng::new(4, 5)], array: Some(ArrayDecl { count: 2, stride: Some(4), colon: false }), ty: uty(4), access: Access::RW, arg_order: 0, opt_path: 0, huge: None, zero_pad: false };
            v.push(lay(b, vec![coll.clone()]));
            let mut inter = coll.clone();
            inter.array = Some(ArrayDecl { count: 2, stride: Some(2), colon: false });
            v.push(lay(b, vec![inter])); // interleaves without collision
            // a read-only field whose list names bits twice, next to complete writable coverage: it is not
            // writable, so it must not take the builder away
            let ro_so = Field { name: "ro".into(), kw_bit: false, list: true, ranges: vec![Rng::new(0, 3), Rng::new(0, 3)], array: None, ty: uty(8), access: Access::R, arg_order: 0, opt_path: 0, huge: None, zero_pad: false };
            v.push(lay(b, vec![fld("all", 0, b, uty(b), Access::RW), ro_so.clone()]));
            v.push(lay(b, vec![ro_so.clone(), fld("all", 0, b, uty(b), Access::RW)]));
            let mut ro_arr = Field { name: "roa".into(), kw_bit: false, list: true, ranges: vec![Rng::new(0, 1), Rng::new(4, 5)], array: Some(ArrayDecl { count: 2, stride: Some(4), colon: false }), ty: uty(4), access: Access::None, arg_order: 0, opt_path: 0, huge: None, zero_pad: false };
            v.push(lay(b, vec![fld("all", 0, b, uty(b), Access::W), ro_arr.clone()]));
            ro_arr.access = Access::R;
            v.push(lay(b, vec![ro_arr, fld("lo", 0, b / 2, uty(b / 2), Access::RW), fld("hi", b / 2, b - b / 2, uty(b - b / 2), Access::RW)]));
            // two woven list arrays (stride = total element width) that together cover 16 bits exactly: no
            // overlap, so a builder exists whenever the rest of the base is covered or a default is declared
            {
                let mkw = |name: &str, lo: u32, acc: Access| Field {
                    name: name.into(),
                    kw_bit: false,
                    list: true,
                    ranges: vec![Rng::new(lo, lo + 1), Rng::new(lo + 8, lo + 9)],
                    array: Some(ArrayDecl { count: 2, stride: Some(4), colon: false }),
                    ty: uty(4),
                    access: acc,
                    arg_order: 0,
                    opt_path: 0,
                    huge: None,
                    zero_pad: false,
                };
                let mut fields = vec![mkw("wa", 0, Access::RW), mkw("wb", 2, Access::RW)];
                if b > 16 {
                    fields.push(fld("rest", 16, (b - 16).min(64), uty((b - 16).min(64)), Access::RW));
                    if b - 16 > 64 {
                        fields.push(fld("rest2", 80, b - 80, uty(b - 80), Access::W));
                    }
                }
                v.push(lay(b, fields));
            }
            // list arrays whose *listed order* is not ascending and whose elements collide / do not collide
            for (rs, st, k, ty_w) in [
                (vec![(6u32, 6u32), (0, 0)], 2u32, 4u32, 2u32), // {6,0},{8,2},{10,4},{12,6}: elements 0 and 3 share bit 6
                (vec![(6, 6), (0, 0)], 2, 3, 2),               // no collision yet
                (vec![(4, 5), (0, 1)], 4, 2, 4),               // {4,5,0,1},{8,9,4,5}: collide
                (vec![(4, 5), (0, 1)], 8, 2, 4),               // no collision
                (vec![(0, 0), (4, 4)], 2, 3, 2),               // {0,4},{2,6},{4,8}: elements 0 and 2 share bit 4
                (vec![(0, 0), (6, 6)], 3, 3, 2),               // {0,6},{3,9},{6,12}: elements 0 and 2 share bit 6
            ] {
                let top = rs.iter().map(|r| r.1).max().unwrap() + (k - 1) * st;
                if top >= b {
                    continue;
                }
                let f = Field {
                    name: "x".into(),
                    kw_bit: false,
                    list: true,
                    ranges: rs.iter().map(|(lo, hi)| Rng { lo: *lo, hi: *hi, short: lo == hi }).collect(),
                    array: Some(ArrayDecl { count: k, stride: Some(st), colon: false }),
                    ty: uty(ty_w),
                    access: Access::RW,
                    arg_order: 0,
                    opt_path: 0,
                    huge: None,
                    zero_pad: false,
                };
                v.push(lay(b, vec![f]));
            }
            // a list whose entries continue each other (one contiguous run written in pieces) as array element:
            // stride below / equal to / above the total width — elements overlap / touch / leave a gap
            for (st, k) in [(4u32, 3u32), (8, 2), (6, 2), (9, 1 + (b - 8) / 9)] {
                if k < 2 || 7 + (k - 1) * st >= b {
                    continue;
                }
                let f = Field { name: "x".into(), kw_bit: false, list: true, ranges: vec![Rng::new(0, 3), Rng::new(4, 7)], array: Some(ArrayDecl { count: k, stride: Some(st), colon: false }), ty: uty(8), access: Access::RW, arg_order: 0, opt_path: 0, huge: None, zero_pad: false };
                v.push(lay(b, vec![f.clone()]));
                let mut g = f;
                g.ranges = vec![Rng::new(4, 7), Rng::new(0, 3)];
                v.push(lay(b, vec![g]));
            }
            // a readable field called `build` (a version register): `.build()` on an incomplete builder must still
            // not type-check
            if b > 24 {
                v.push(lay(b, vec![fld("major", 16, 8, uty(8), Access::RW), fld("minor", 8, 8, uty(8), Access::RW), fld("build", 0, 8, uty(8), Access::RW), fld("rest", 24, (b - 24).min(64), uty((b - 24).min(64)), Access::R)]));
            } else if b == 24 {
                v.push(lay(b, vec![fld("major", 16, 8, uty(8), Access::RW), fld("minor", 8, 8, uty(8), Access::RW), fld("build", 0, 8, uty(8), Access::RW)]));
            } else {
                v.push(lay(b, vec![fld("major", 8, b - 8, uty(b - 8), Access::RW), fld("build", 0, 8, uty(8), Access::RW)]));
            }
            // overlapping ranges that are not neighbours in the list; elements colliding around a middle element
            let na = Field { name: "x".into(), kw_bit: false, list: true, ranges: vec![Rng::new(0, 3), Rng::new(8, 11), Rng::new(2, 5)], array: None, ty: uty(12), access: Access::RW, arg_order: 0, opt_path: 0, huge: None, zero_pad: false };
            v.push(lay(b, vec![na]));
            let nb = Field { name: "x".into(), kw_bit: false, list: true, ranges: vec![Rng::bit(1), Rng::bit(3), Rng::bit(5), Rng::bit(1)], array: None, ty: uty(4), access: Access::RW, arg_order: 0, opt_path: 0, huge: None, zero_pad: false };
            v.push(lay(b, vec![nb]));
            if b >= 24 {
                let nc = Field { name: "x".into(), kw_bit: false, list: true, ranges: vec![Rng::new(0, 1), Rng::new(8, 9)], array: Some(ArrayDecl { count: 3, stride: Some(4), colon: false }), ty: uty(4), access: Access::RW, arg_order: 0, opt_path: 0, huge: None, zero_pad: false };
                v.push(lay(b, vec![nc]));
            }
            // single repeated bit
            let rep = Field { name: "x".into(), kw_bit: false, list: true, ranges: vec![Rng::bit(3), Rng::new(0, 1), Rng::bit(3)], array: None, ty: uty(4), access: Access::RW, arg_order: 0, opt_path: 0, huge: None, zero_pad: false };
            v.push(lay(b, vec![rep]));
        }
    }
    // a writable field overlapping a writable field that is NOT its direct predecessor in the declaration (and
    // not overlapping the predecessor): three and four fields, the overlapped one first / in the middle, with
    // read-only and write-only fields in between
    for b in [16u32, 32, 64, 128, 24, 65] {
        let f = |n: &str, lo: u32, hi: u32, acc: Access| fld(n, lo, hi - lo + 1, uty(hi - lo + 1), acc);
        v.push(lay(b, vec![f("a", 0, 7, Access::RW), f("b", 12, 15, Access::RW), f("c", 4, 11, Access::RW)]));
        v.push(lay(b, vec![f("a", 0, 7, Access::RW), f("b", 12, 15, Access::W), f("c", 4, 11, Access::W)]));
        v.push(lay(b, vec![f("a", 8, 15, Access::RW), f("b", 0, 3, Access::RW), f("c", 4, 8, Access::RW)]));
        v.push(lay(b, vec![f("a", 0, 3, Access::RW), f("b", 4, 7, Access::RW), f("c", 8, 11, Access::RW), f("d", 3, 3, Access::RW)]));
        v.push(lay(b, vec![f("a", 0, 3, Access::RW), f("b", 4, 7, Access::RW), f("c", 8, 11, Access::RW), f("d", 12, 15, Access::RW), f("e", 7, 8, Access::RW)]));
        v.push(lay(b, vec![f("a", 0, 7, Access::RW), f("r", 8, 11, Access::R), f("b", 12, 15, Access::RW), f("c", 7, 10, Access::RW)]));
        // the same shapes without the overlap (control)
        v.push(lay(b, vec![f("a", 0, 3, Access::RW), f("b", 12, 15, Access::RW), f("c", 4, 11, Access::RW)]));
        // an array whose later element overlaps an earlier scalar, with a field in between
        let mut arr = fld("arr", 8, 2, uty(2), Access::RW);
        arr.array = Some(ArrayDecl { count: 4, stride: None, colon: false });
        v.push(lay(b, vec![f("a", 0, 3, Access::RW), f("b", 4, 7, Access::RW), arr.clone(), f("z", 15, 15, Access::RW)]));
        v.push(lay(b, vec![f("z", 14, 15, Access::RW), f("a", 0, 3, Access::RW), f("b", 4, 7, Access::RW), arr]));
    }
    // no writable field at all: with a default the (empty) builder chain must still be offered, without
    // one it must not
    for b in [8u32, 32, 128, 7, 24, 100] {
        v.push(lay(b, vec![]));
        v.push(lay(b, vec![fld("ro", 0, b, uty(b), Access::R)]));
        v.push(lay(b, vec![fld("st", 0, 1, FieldTy::Bool, Access::R), fld("nn", 1, (b - 1).min(8), uty((b - 1).min(8)), Access::None)]));
    }
    // every systematic layout with and without a default
    let mut out = Vec::new();
    for l in v {
        let mut d = l.clone();
        d.default = Some(DefaultDecl { value: 0, named_const: false, radix: 10, const_name: None });
        out.push(l);
        out.push(d);
    }
    out
}

/// positions 0..n at which a prefix / skip probe is generated: all of them for chains of up to 24 steps, for
/// longer ones the first and last three, every 16th and the neighbours of 10, 32, 64 and 100
fn probe_positions(n: usize) -> Vec<usize> {
    if n <= 24 {
        return (0..n).collect();
    }
    let mut v: Vec<usize> = vec![0, 1, 2, 9, 10, 11, 31, 32, 33, 63, 64, 65, 99, 100, 101, n - 3, n - 2, n - 1];
    v.extend((0..n).step_by(16));
    v.retain(|k| *k < n);
    v.sort();
    v.dedup();
    v
}

/// long builder chains: one field per bit (or nibble) of the base, complete / one field missing / two fields
/// overlapping far down the list; a 64-entry range list naming one bit twice near its end
fn c14_large() -> Vec<Layout> {
    let mut v = Vec::new();
    for (k, l) in sys_many_fields(Access::RW).into_iter().enumerate() {
        let n = l.fields.len();
        if k % 2 == 1 && n > 40 {
            continue; // the top-down twin of the largest ones: once is enough here
        }
        v.push(l.clone());
        // write-only and read-only fields mixed in: the read-only ones leave their bits uncovered
        let mut m = l.clone();
        for (j, f) in m.fields.iter_mut().enumerate() {
            f.access = match j % 5 {
                0 => Access::W,
                3 if j == n - 2 => Access::R,
                _ => Access::RW,
            };
        }
        v.push(m);
        // read-only and accessor-less fields spread between the writable ones; their bits stay uncovered, so a
        // builder exists only with a default (added below for every other layout, here for both)
        let mut m2 = l.clone();
        for (j, f) in m2.fields.iter_mut().enumerate() {
            f.access = match j % 5 {
                1 => Access::R,
                3 => Access::None,
                4 => Access::W,
                _ => Access::RW,
            };
        }
        let mut m2d = m2.clone();
        m2d.default = Some(DefaultDecl { value: 0, named_const: false, radix: 16, const_name: None });
        v.push(m2);
        v.push(m2d);
        // one field missing: the first, one in the middle, the last
        for drop in [0usize, n / 2, n - 1] {
            let mut d = l.clone();
            d.fields.remove(drop);
            v.push(d);
        }
        // two neighbours far down the list overlapping by one bit (multi-bit fields only)
        let j = n * 3 / 4;
        if j + 1 < n && l.fields[j].width() >= 2 && l.fields[j].ranges[0].hi + 1 < l.base_bits && matches!(l.fields[j].ty, FieldTy::UArb { .. } | FieldTy::UNat { .. }) {
            let mut o = l.clone();
            let w = o.fields[j].width() + 1;
            o.fields[j].ranges[0].hi += 1;
            o.fields[j].ty = uty(w);
            if layout_verdict(&o) == Verdict::Valid {
                v.push(o);
            }
        }
    }
    for l in sys_long_lists().into_iter().step_by(4) {
        v.push(l.clone());
        // the same list with its third entry repeated at the end (the type grows by that entry's width)
        let mut d = l.clone();
        if let Some(f) = d.fields.iter_mut().find(|f| f.list && f.array.is_none() && f.ranges.len() >= 16) {
            let extra = f.ranges[2].clone();
            let w = f.width() + extra.len();
            if w <= 128 && matches!(f.ty, FieldTy::UArb { .. } | FieldTy::UNat { .. }) {
                f.ranges.push(extra);
                f.ty = uty(w);
                v.push(d);
            }
        }
    }
    v.extend(sys_deep_nesting(false).into_iter().step_by(2));
    let mut out = Vec::new();
    for (k, l) in v.into_iter().enumerate() {
        if k % 2 == 0 && l.default.is_none() {
            let mut d = l.clone();
            d.default = Some(DefaultDecl { value: 1, named_const: false, radix: 10, const_name: None });
            out.push(d);
        }
        out.push(l);
    }
    out
}

fn c14_corpus(tier: Tier, seed: u64) -> Vec<Layout> {
    let n = tier.pick(600usize, 9000usize);
    let mut v = c14_systematic();
    v.extend(c14_large());
    let mut p = Profile::general();
    p.kinds = [3, 6, 4, 2, 2, 2, 1];
    p.shapes = [5, 3, 2, 1];
    p.access = AccessMode::Mixed;
    p.max_fields = 5;
    p.need_builder = true;
    v.extend(sample_choices(seed, 14, n / 3, 320).iter().map(|w| build_layout(&p, w)));
    p.need_builder = false;
    p.default = DefaultMode::Maybe;
    // fields without access specifier next to the others: they take no part in the builder
    p.access = AccessMode::MixedWithNone;
    p.ensure_writable = false;
    v.extend(sample_choices(seed, 15, n / 3, 320).iter().map(|w| build_layout(&p, w)));
    p.access = AccessMode::Mixed;
    p.ensure_writable = true;
    p.overlap = true;
    p.base = BaseMode::SmallBias;
    v.extend(sample_choices(seed, 16, n / 3, 320).iter().map(|w| build_layout(&p, w)));
    // the user's own `#[derive(Default)]` (legal when no `default` is declared) must not make a builder appear
    for (k, l) in v.iter_mut().enumerate() {
        if l.default.is_none() && k % 3 == 0 {
            l.derives |= 1;
        }
    }
    v
}

pub fn run_c14(rc: &RunCtx) -> Outcome {
    let layouts = c14_corpus(rc.tier, rc.seed);
    let ro = RenderOpts::default();
    let mut items: Vec<VItem> = Vec::new();
    let mut expected: Vec<bool> = Vec::new();
    let words = sample_choices(rc.seed, 17, layouts.len(), 64);
    for (id, l) in layouts.iter().enumerate() {
        // the declaration itself must be accepted by the macro: valid, or one of the deliberately
        // self-overlapping lists (which the statement of C14 names explicitly)
        match layout_verdict(l) {
            Verdict::Valid => {}
            Verdict::Unspecified(r) if r == "list names a bit twice" => {}
            other => inconclusive(&format!("generator bug: C14 layout {} is {:?}\n{}", id, other, render_layout(l, &ro))),
        }
        let exp = builder_expected(l);
        expected.push(exp);
        let mut probes = Vec::new();
        probes.push(Probe { name: "builder-exists".into(), code: "pub fn p_builder() { let _ = S::builder(); }".into(), must_compile: exp, what: "S::builder()".into() });
        probes.push(Probe { name: "twin-zero".into(), code: "pub fn p_zero() -> S { S::ZERO }".into(), must_compile: true, what: "S::ZERO".into() });
        if exp {
            let steps: Vec<usize> = (0..l.fields.len()).filter(|i| l.fields[*i].access.writable()).collect();
            probes.push(Probe { name: "full-chain".into(), code: format!("pub fn p_full() -> S {{ {}.build() }}", chain(l, &steps)), must_compile: true, what: "complete in-order chain".into() });
            probes.push(Probe { name: "full-chain-const".into(), code: format!("pub const P_FULL: S = {}.build();", chain(l, &steps)), must_compile: true, what: "complete in-order chain in const context".into() });
            // a complete builder state must not be obtainable out of thin air: the type of the complete chain is
            // named through inference only (the closure is never called), and `Default::default()` of it would
            // be a state on which build() type-checks although no field was supplied
            if !steps.is_empty() {
                probes.push(Probe {
                    name: "conjure-final-state".into(),
                    code: format!("pub fn p_conjure() {{ fn conjure<T: Default>(_: fn() -> T) -> T {{ T::default() }} let _ = conjure(|| {}).build(); }}", chain(l, &steps)),
                    must_compile: false,
                    what: "build() on a complete builder state created by Default::default() instead of by the with_ steps".into(),
                });
            }
            // every proper prefix followed by build()
            for k in probe_positions(steps.len()) {
                probes.push(Probe {
                    name: format!("prefix-{}", k),
                    code: format!("pub fn p_prefix{}() {{ let _ = {}.build(); }}", k, chain(l, &steps[..k])),
                    must_compile: false,
                    what: format!("build() after only {} of {} steps", k, steps.len()),
                });
            }
            // exactly one step removed
            if steps.len() >= 2 {
                for k in probe_positions(steps.len()) {
                    let mut st = steps.clone();
                    st.remove(k);
                    probes.push(Probe {
                        name: format!("skip-{}", k),
                        code: format!("pub fn p_skip{}() {{ let _ = {}.build(); }}", k, chain(l, &st)),
                        must_compile: false,
                        what: format!("chain without step {} ({})", k, l.fields[steps[k]].name),
                    });
                }
            }
            // random proper subsequences
            if steps.len() >= 3 {
                let mut src = Src::new(&words[id]);
                for k in 0..3 {
                    let st: Vec<usize> = steps.iter().copied().filter(|_| src.chance(1, 2)).collect();
                    if st.len() == steps.len() {
                        continue;
                    }
                    probes.push(Probe {
                        name: format!("subseq-{}", k),
                        code: format!("pub fn p_sub{}() {{ let _ = {}.build(); }}", k, chain(l, &st)),
                        must_compile: false,
                        what: format!("chain with only steps {:?}", st),
                    });
                }
            }
        }
        items.push(VItem { id, source: render_layout(l, &ro), probes });
    }
    let decl_items: Vec<(usize, String)> = items.iter().map(|i| (i.id, i.source.clone())).collect();
    let mut disagreements = Vec::new();
    let mut evaluations = 0u64;
    let mut nontrivial = std::collections::BTreeSet::new();
    let mut unspecified_rejected = 0u64;
    for mp in MACRO_PROFILES {
        let dv = check_decls(rc, "c14decl", &decl_items, mp);
        let mut accepted_items = Vec::new();
        for it in &items {
            let errs = dv.get(&it.id).cloned().unwrap_or_default();
            if !errs.is_empty() && !layout_verdict(&layouts[it.id]).is_valid() {
                // a deliberately self-overlapping list: whether it is accepted at all is left open by the
                // statements; a macro that rejects it outright offers no builder either
                unspecified_rejected += 1;
                continue;
            }
            if !errs.is_empty() {
                disagreements.push(Disagreement {
                    sig: format!("declaration-rejected/{}", base_class(layouts[it.id].base_bits)),
                    summary: format!("C14 (macro {}): declaration expected to be accepted is rejected: {}\n{}", mp, errs[0], it.source),
                    source: it.source.clone(),
                    probe: None,
                    expect_accept: true,
                    mp: mp.to_string(),
                    extra: json!({"layout": layouts[it.id]}),
                });
                continue;
            }
            accepted_items.push(it.clone());
        }
        let pv = check_probes(rc, "c14", &accepted_items, mp);
        for it in &accepted_items {
            let l = &layouts[it.id];
            for (k, p) in it.probes.iter().enumerate() {
                evaluations += 1;
                let errs = pv.by_probe.get(&(it.id, k)).cloned().unwrap_or_default();
                let compiles = errs.is_empty();
                if p.name != "twin-zero" {
                    nontrivial.insert((it.id, k));
                }
                if compiles == p.must_compile {
                    continue;
                }
                let kind = if p.name == "builder-exists" {
                    let overlap = !builder_expected(&Layout { default: Some(DefaultDecl { value: 0, named_const: false, radix: 10, const_name: None }), ..l.clone() });
                    let self_overlap = l.fields.iter().any(|f| f.access.writable() && !rules::ranges_disjoint(f));
                    if p.must_compile {
                        "builder-missing".to_string()
                    } else if self_overlap {
                        format!("builder-offered-despite-self-overlapping-list/{}", if l.fields.iter().any(|f| f.is_array() && !rules::ranges_disjoint(f)) { "array" } else { "non-array" })
                    } else if overlap {
                        "builder-offered-despite-overlap".to_string()
                    } else {
                        "builder-offered-although-incomplete".to_string()
                    }
                } else if p.must_compile {
                    format!("{}-does-not-compile", p.name.split('-').next().unwrap_or("probe"))
                } else {
                    format!("build-reachable-with-missing-field/{}", p.name.split('-').next().unwrap_or("probe"))
                };
                disagreements.push(Disagreement {
                    sig: format!("{}/macro-{}", kind, mp),
                    summary: format!("C14 (macro {}): `{}` ({}) {} but must {}: {}\n{}", mp, p.code, p.what, if compiles { "compiles" } else { "does not compile" }, if p.must_compile { "compile" } else { "not compile" }, errs.first().cloned().unwrap_or_default(), it.source),
                    source: it.source.clone(),
                    probe: Some(p.code.clone()),
                    expect_accept: p.must_compile,
                    mp: mp.to_string(),
                    extra: json!({"layout": l, "builder_expected": expected[it.id]}),
                });
            }
        }
    }
    let (mut checked, mut dups) = (0u64, 0u64);
    let violations = confirm(rc, disagreements, 2, &mut checked, &mut dups);
    let mut samples = Vec::new();
    for it in items.iter().filter(|i| i.probes.len() > 4).take(2).chain(items.iter().filter(|i| !expected[i.id]).take(2)) {
        samples.push(json!({"declaration": it.source, "builder_expected": expected[it.id], "probes": it.probes.iter().map(|p| json!({"code": p.code, "must_compile": p.must_compile})).collect::<Vec<_>>()}));
    }
    let coverage = json!({
        "programs": layouts.len(),
        "evaluations": evaluations,
        "distinct_nontrivial": nontrivial.len(),
        "rule": "cases = (declaration, probe function) in two macro profiles. Declarations on both sides of the builder predicate (complete / one bit missing / default or not / fields overlapping by one bit / overlapping array elements / self-overlapping range lists / read-only fields and gaps). Probes: S::builder() (must compile iff the predicate holds), the complete in-order chain + build() as fn and as const (must compile), build() after every proper prefix, every chain with one step removed, random proper subsequences (must not compile). Non-trivial: every probe except the always-compiling twin; distinct by (declaration, probe)",
        "samples": samples,
        "exhaustive": false,
        "disagreements_checked": checked,
        "further_disagreements_with_an_already_confirmed_signature": dups,
        "self_overlapping_declarations_rejected_outright": unspecified_rejected,
        "builder_expected": expected.iter().filter(|e| **e).count(),
        "builder_not_expected": expected.iter().filter(|e| !**e).count(),
        "macro_profiles": MACRO_PROFILES,
    });
    Outcome {
        violations,
        coverage,
        assumptions: vec![
            "builder predicate transcribed from the statement (model::rules::builder_expected)".into(),
            "a must-fail probe counts as failing when rustc reports an error on the probe's own line; disagreements are re-confirmed in a single-declaration, single-probe crate".into(),
        ],
    }
}

// =============================================================================================
// C17

fn probes_for_field(l: &Layout, fi: usize, tag: &str, expect_r: bool, expect_w: bool) -> Vec<Probe> {
    let f = &l.fields[fi];
    let m = method_name(f);
    let idx = if f.is_array() { "0, " } else { "" };
    let idx_only = if f.is_array() { "0" } else { "" };
    let a = arg_expr(l, &f.ty);
    // methods the *other* fields legitimately generate: a field named `set_f0` has the getter `set_f0`, so
    // "set_f0 is absent" cannot be probed for a read-only field `f0` next to it (the call could resolve to that
    // getter and compile, e.g. `s.set_f0(1)` with an array field `set_f0` taking an index)
    let mut others = std::collections::HashSet::new();
    for (j, g) in l.fields.iter().enumerate() {
        if j == fi {
            continue;
        }
        let gm = method_name(g);
        if g.access.readable() {
            others.insert(gm.clone());
        }
        if g.access.writable() {
            others.insert(format!("with_{}", gm));
            others.insert(format!("set_{}", gm));
        }
    }
    let all = vec![
        (m.clone(), Probe { name: format!("get-{}", tag), code: format!("pub fn g_{}(s: &S) {{ let _ = s.{}({}); }}", m, f.name, idx_only), must_compile: expect_r, what: format!("getter of {:?} field {}", f.access, f.name) }),
        (format!("with_{}", m), Probe { name: format!("with-{}", tag), code: format!("pub fn w_{}(s: &S) -> S {{ s.with_{}({}{}) }}", m, m, idx, a), must_compile: expect_w, what: format!("with_ of {:?} field {}", f.access, f.name) }),
        (format!("set_{}", m), Probe { name: format!("set-{}", tag), code: format!("pub fn s_{}(s: &mut S) {{ s.set_{}({}{}); }}", m, m, idx, a), must_compile: expect_w, what: format!("set_ of {:?} field {}", f.access, f.name) }),
    ];
    all.into_iter().filter(|(name, p)| p.must_compile || !others.contains(name)).map(|(_, p)| p).collect()
}

pub fn run_c17(rc: &RunCtx) -> Outcome {
    let n = rc.tier.pick(600usize, 9000usize);
    let ro = RenderOpts::default();
    let mut layouts: Vec<Layout> = Vec::new();
    // part 1: every field with an rw twin over the same bits
    let mut p = Profile::general();
    p.kinds = [3, 5, 3, 2, 2, 2, 2];
    p.shapes = [4, 3, 2, 2];
    p.access = AccessMode::MixedWithNone;
    p.max_fields = 4;
    p.ensure_readable = false;
    p.ensure_writable = false;
    for w in sample_choices(rc.seed, 18, n * 2 / 3, 320) {
        let mut l = build_layout(&p, &w);
        let twins: Vec<Field> = l.fields.iter().map(|f| Field { name: format!("{}t", f.name), access: Access::RW, ..f.clone() }).collect();
        l.fields.extend(twins);
        layouts.push(l);
    }
    // systematic: the 4 access forms for each kind x shape
    for l in sys_arrays(Tier::Quick).into_iter().step_by(7).chain(sys_lists(Tier::Quick).into_iter().step_by(9)).chain(sys_custom(Tier::Quick).into_iter().step_by(9)).chain(sys_signed(Tier::Quick).into_iter().step_by(9)) {
        for acc in [Access::R, Access::W, Access::RW, Access::None] {
            let mut l2 = l.clone();
            let mut twins = Vec::new();
            for f in l2.fields.iter_mut() {
                twins.push(Field { name: format!("{}t", f.name), access: Access::RW, ..f.clone() });
                f.access = acc;
            }
            l2.fields.extend(twins);
            layouts.push(l2);
        }
    }
    // many fields with the four access forms cycling (field k: r / w / rw / none by k mod 4, shifted per layout),
    // each with an rw twin; long lists and deeply nested fields in each access form
    for (j, l) in sys_many_fields(Access::RW).into_iter().enumerate() {
        if l.fields.len() > 64 && j % 2 == 1 {
            continue;
        }
        let mut l2 = l.clone();
        let mut twins = Vec::new();
        for (k, f) in l2.fields.iter_mut().enumerate() {
            twins.push(Field { name: format!("tw{}", k), access: Access::RW, ..f.clone() });
            f.access = [Access::R, Access::W, Access::RW, Access::None][(k + j) % 4];
        }
        l2.fields.extend(twins);
        layouts.push(l2);
    }
    for (j, l) in sys_long_lists().into_iter().step_by(3).chain(sys_deep_nesting(false)).chain(sys_name_pairs()).enumerate() {
        let acc = [Access::R, Access::W, Access::RW, Access::None][j % 4];
        let mut l2 = l.clone();
        let mut twins = Vec::new();
        for f in l2.fields.iter_mut() {
            twins.push(Field { name: format!("{}t", f.name), access: Access::RW, ..f.clone() });
            f.access = acc;
        }
        l2.fields.extend(twins);
        layouts.push(l2);
    }
    let n_twin_layouts = layouts.len();
    // part 2: builder membership (no twins, builder must exist)
    let mut p2 = Profile::general();
    p2.kinds = [3, 5, 3, 2, 2, 2, 1];
    p2.access = AccessMode::MixedWithNone;
    p2.need_builder = true;
    p2.ensure_readable = false;
    p2.max_fields = 5;
    for (k, w) in sample_choices(rc.seed, 19, n / 3, 320).iter().enumerate() {
        let mut l = build_layout(&p2, w);
        if k % 2 == 1 {
            // read-only / unspecified aliases declared after the writable fields they overlap:
            // they must neither join the builder chain nor make the builder disappear
            let twins: Vec<Field> = l
                .fields
                .iter()
                .filter(|f| f.access.writable())
                .map(|f| Field { name: format!("{}a", f.name), access: if k % 4 == 1 { Access::R } else { Access::None }, ..f.clone() })
                .collect();
            l.fields.extend(twins);
        }
        layouts.push(l);
    }
    // part 3: `debug` declarations with fields that are not readable. Whether such a declaration is
    // accepted is outside C17 (C19 says they do not compile); but *if* the macro accepts one, the access
    // letters still decide the API surface, so the same presence / absence probes apply.
    let n_before_debug = layouts.len();
    {
        let mut p3 = Profile::general();
        p3.kinds = [3, 5, 3, 2, 2, 2, 1];
        p3.shapes = [1, 0, 1, 0];
        p3.max_array = 0;
        p3.debug = true;
        p3.access = AccessMode::MixedWithNone;
        p3.ensure_readable = false;
        p3.ensure_writable = false;
        p3.max_fields = 3;
        for w in sample_choices(rc.seed, 27, n / 6, 320) {
            let mut l = build_layout(&p3, &w);
            let twins: Vec<Field> = l.fields.iter().map(|f| Field { name: format!("{}t", f.name), access: Access::RW, ..f.clone() }).collect();
            l.fields.extend(twins);
            layouts.push(l);
        }
    }
    // twins and aliases are named after their originals; where that makes two generated methods coincide
    // (a field called set_f0 next to f0: the twins are f0t and set_f0t), the twins get neutral names
    for (id, l) in layouts.iter_mut().enumerate() {
        if model::rules::api_name_collision(l).is_some() && (id < n_twin_layouts || id >= n_before_debug) {
            let n0 = l.fields.len() / 2;
            for k in n0..l.fields.len() {
                l.fields[k].name = format!("tw{}", k - n0);
            }
        }
    }
    let mut renamed_or_dropped = 0u64;
    let mut items = Vec::new();
    for (id, l) in layouts.iter().enumerate() {
        if model::rules::api_name_collision(l).is_some() {
            renamed_or_dropped += 1;
            continue;
        }
        if id < n_before_debug && !layout_verdict(l).is_valid() {
            inconclusive(&format!("generator bug: C17 layout {} not valid\n{}", id, render_layout(l, &ro)));
        }
        let mut probes = Vec::new();
        if id < n_twin_layouts || id >= n_before_debug {
            for (fi, f) in l.fields.iter().enumerate() {
                let is_twin = fi >= l.fields.len() / 2 && f.access == Access::RW && (f.name.starts_with("tw") || l.fields.iter().any(|g| format!("{}t", g.name) == f.name));
                if is_twin {
                    probes.extend(probes_for_field(l, fi, &format!("twin-{}", f.name), true, true));
                } else {
                    let acc = match f.access {
                        Access::R => "r",
                        Access::W => "w",
                        Access::RW => "rw",
                        Access::None => "none",
                    };
                    probes.extend(probes_for_field(l, fi, &format!("{}-{}", acc, f.name), f.access.readable(), f.access.writable()));
                }
            }
        } else if builder_expected(l) {
            let steps: Vec<usize> = (0..l.fields.len()).filter(|i| l.fields[*i].access.writable()).collect();
            probes.push(Probe { name: "chain-writable-only".into(), code: format!("pub fn p_full() -> S {{ {}.build() }}", chain(l, &steps)), must_compile: true, what: "builder chain over exactly the writable fields".into() });
            for (fi, f) in l.fields.iter().enumerate() {
                if f.access.writable() {
                    continue;
                }
                // the non-writable field's step inserted at its declaration position
                let mut st: Vec<usize> = steps.clone();
                let pos = st.iter().position(|x| *x > fi).unwrap_or(st.len());
                st.insert(pos, fi);
                probes.push(Probe {
                    name: format!("chain-with-{}", if f.access == Access::R { "r" } else { "none" }),
                    code: format!("pub fn p_ins{}() {{ let _ = {}.build(); }}", fi, chain(l, &st)),
                    must_compile: false,
                    what: format!("builder chain with a step for the non-writable field {}", f.name),
                });
                // and directly on the initial builder state
                probes.push(Probe {
                    name: format!("builder-step-{}", if f.access == Access::R { "r" } else { "none" }),
                    code: format!("pub fn p_step{}() {{ let _ = {}; }}", fi, chain(l, &[fi])),
                    must_compile: false,
                    what: format!("builder step for the non-writable field {}", f.name),
                });
            }
        }
        items.push(VItem { id, source: render_layout(l, &ro), probes });
    }
    let decl_items: Vec<(usize, String)> = items.iter().map(|i| (i.id, i.source.clone())).collect();
    let mut disagreements = Vec::new();
    let mut evaluations = 0u64;
    let mut nontrivial = std::collections::BTreeSet::new();
    let mut hist: BTreeMap<String, u64> = BTreeMap::new();
    let mut debug_rejected = 0u64;
    // "dev-tests": the same crates checked as test targets (`cargo check --tests`, i.e. with cfg(test) set in the
    // crate that declares the bitfield): the API surface must not depend on it
    let mut accepted_dev: Vec<usize> = Vec::new();
    for mp in ["dev", "dev-tests"] {
        let dv = check_decls(rc, "c17decl", &decl_items, mp);
        let mut accepted = Vec::new();
        for it in &items {
            let errs = dv.get(&it.id).cloned().unwrap_or_default();
            if !errs.is_empty() && it.id >= n_before_debug && !layout_verdict(&layouts[it.id]).is_valid() {
                debug_rejected += 1;
                continue; // expected: `debug` with an unreadable field does not compile
            }
            if !errs.is_empty() {
                disagreements.push(Disagreement {
                    sig: format!("declaration-rejected/{}", base_class(layouts[it.id].base_bits)),
                    summary: format!("C17: rule-valid declaration is rejected: {}\n{}", errs[0], it.source),
                    source: it.source.clone(),
                    probe: None,
                    expect_accept: true,
                    mp: mp.to_string(),
                    extra: json!({"layout": layouts[it.id]}),
                });
            } else {
                accepted.push(it.clone());
            }
        }
        if mp == "dev" {
            accepted_dev = accepted.iter().map(|it| it.id).collect();
        }
        let pv = check_probes(rc, "c17", &accepted, mp);
        for it in &accepted {
            for (k, p) in it.probes.iter().enumerate() {
                evaluations += 1;
                let kind = p.name.split('-').take(2).collect::<Vec<_>>().join("-");
                *hist.entry(format!("{}:{}", kind, if p.must_compile { "present" } else { "absent" })).or_insert(0) += 1;
                if !p.name.contains("twin") {
                    nontrivial.insert((it.id, k));
                }
                let errs = pv.by_probe.get(&(it.id, k)).cloned().unwrap_or_default();
                if errs.is_empty() == p.must_compile {
                    continue;
                }
                disagreements.push(Disagreement {
                    sig: format!("{}/{}", kind, if p.must_compile { "missing" } else { "present-but-must-not" }),
                    summary: format!("C17: `{}` ({}) {} but must {}: {}\n{}", p.code, p.what, if errs.is_empty() { "compiles" } else { "does not compile" }, if p.must_compile { "compile" } else { "not compile" }, errs.first().cloned().unwrap_or_default(), it.source),
                    source: it.source.clone(),
                    probe: Some(p.code.clone()),
                    expect_accept: p.must_compile,
                    mp: mp.to_string(),
                    extra: json!({"layout": layouts[it.id]}),
                });
            }
        }
    }
    let (mut checked, mut dups) = (0u64, 0u64);
    let mut violations = confirm(rc, disagreements, 2, &mut checked, &mut dups);
    // part 3: the whole public surface of the struct, read from the macro expansion (c17x.rs)
    let limit = rc.tier.pick(150usize, 1500usize);
    let step = (accepted_dev.len() + limit - 1) / limit.max(1);
    let chosen: Vec<(usize, Layout, String)> = accepted_dev
        .iter()
        .enumerate()
        .filter(|(k, id)| k % step.max(1) == 0 || (layouts[**id].fields.len() > 16 && *k % rc.tier.pick(5, 1) == 0))
        .map(|(_, id)| (*id, layouts[*id].clone(), items[*id].source.clone()))
        .collect();
    let surface = if chosen.is_empty() {
        None
    } else {
        match crate::c17x::surface_scan(rc, &chosen) {
            Ok(s) => Some(s),
            Err(e) => {
                if violations.is_empty() {
                    inconclusive(&format!("C17 surface scan: {}", e));
                }
                None
            }
        }
    };
    let mut surface_cov = json!(null);
    if let Some(sf) = surface {
        evaluations += sf.pub_fns_seen;
        surface_cov = json!({
            "declarations_expanded": sf.declarations,
            "public_methods_seen": sf.pub_fns_seen,
            "of_which_can_modify": sf.modifiers_seen,
            "unexpected_modifiers_named_after_no_field_without_setter": sf.unexpected_but_unrelated,
        });
        let mut seen_sig = 0;
        for v in sf.violations {
            seen_sig += 1;
            if seen_sig <= 3 {
                violations.push(v);
            }
        }
    }
    let samples: Vec<Value> = items
        .iter()
        .filter(|i| i.probes.iter().any(|p| !p.must_compile))
        .take(3)
        .map(|it| json!({"declaration": it.source, "probes": it.probes.iter().take(12).map(|p| json!({"code": p.code, "must_compile": p.must_compile})).collect::<Vec<_>>()}))
        .collect();
    let coverage = json!({
        "programs": layouts.len(),
        "evaluations": evaluations,
        "distinct_nontrivial": nontrivial.len(),
        "rule": "cases = (declaration, probe function). Part 1: every field kind x shape with access r / w / rw / none, each next to an rw twin over the same bits and type; probes call the getter, with_ and set_ of the field (expected presence from the access letter alone) and of the twin (must compile). Part 2: declarations offering a builder; the chain over exactly the writable fields must compile, a chain with a step for a non-writable field must not. Non-trivial: probes on non-twin fields; distinct by (declaration, probe)",
        "samples": samples,
        "exhaustive": false,
        "probe_histogram": hist,
        "declarations_left_out_because_two_generated_method_names_coincide": renamed_or_dropped,
        "debug_declarations_with_unreadable_fields": layouts.len() - n_before_debug,
        "of_which_rejected_by_the_macro_as_expected": debug_rejected,
        "disagreements_checked": checked,
        "further_disagreements_with_an_already_confirmed_signature": dups,
        "surface_scan": surface_cov,
    });
    Outcome {
        violations,
        coverage,
        assumptions: vec![
            "absence is observed as a compile error on the probe's own line (E0599), confirmed in isolation when it disagrees with the expectation".into(),
            "part 3 reads the public surface from the nightly macro expansion (inherent `impl S` blocks only); a modifier is tied to a field by its name (<prefix>_<field>, <field>_<suffix>), methods named after no field without setter are listed, not judged".into(),
        ],
    }
}

// =============================================================================================
// C10

fn mk_enum(bits: u32, discs: &[u128], exhaustive: Exh, gated: Option<usize>, special: u8) -> EnumDecl {
    let mut variants: Vec<Variant> = discs
        .iter()
        .enumerate()
        .map(|(k, d)| Variant { name: format!("V{}", k), disc: Disc::Lit { value: *d, radix: [10u8, 16, 2, 8][k % 4], underscore: k % 5 == 4 }, cfg: Cfg::None, style: 0 })
        .collect();
    if let Some(g) = gated {
        let g = g % variants.len();
        variants[g].cfg = Cfg::Always;
    }
    match special {
        1 => {
            let k = variants.len() / 2;
            variants[k].disc = Disc::Missing;
        }
        2 => {
            let k = variants.len() - 1;
            if let Disc::Lit { value, .. } = variants[k].disc {
                variants[k].disc = Disc::NonLit(if value >= 1 { format!("{} + 1", value - 1) } else { "0 + 0".to_string() });
            }
        }
        3 => {
            let k = 0;
            if let Disc::Lit { value, .. } = variants[k].disc {
                variants[k].disc = Disc::NonLit(format!("K{}", value));
            }
        }
        4 => {
            let k = variants.len() - 1;
            variants[k].disc = Disc::NonLit("-1".to_string());
        }
        5 => {
            // a byte literal: a literal, of integer type, but not an integer literal (the enum gets #[repr(u8)]
            // in `enum_source`, without which rustc itself would object to the type)
            let k = variants.len() - 1;
            if let Disc::Lit { value, .. } = variants[k].disc {
                if value <= 0xff {
                    variants[k].disc = Disc::NonLit(format!("b'\\x{:02x}'", value));
                }
            }
        }
        _ => {}
    }
    EnumDecl { name: "E".into(), bits, variants, exhaustive, colon: false, qualified: false, args_swapped: false }
}

fn discs_with_max(count: u128, maxd: u128) -> Option<Vec<u128>> {
    if count == 0 || count - 1 > maxd {
        return None;
    }
    let mut v: Vec<u128> = (0..count - 1).collect();
    v.push(maxd);
    Some(v)
}

pub fn c10_corpus(tier: Tier, seed: u64) -> Vec<EnumDecl> {
    let mut out = Vec::new();
    let exhs = [Exh::True, Exh::False, Exh::Omitted, Exh::Conditional];
    let max_n = tier.pick(7u32, 8u32);
    for n in 1..=max_n {
        let full: u128 = 1 << n;
        let mut counts = vec![1u128, full - 1, full, full + 1];
        counts.retain(|c| *c >= 1);
        counts.sort();
        counts.dedup();
        let mut maxds = vec![full.saturating_sub(2), full - 1, full, full + 1];
        maxds.sort();
        maxds.dedup();
        for c in &counts {
            for md in &maxds {
                let discs = match discs_with_max(*c, *md) {
                    Some(d) => d,
                    None => continue,
                };
                for ex in exhs {
                    for gated in [None, Some(0usize), Some(discs.len() - 1)] {
                        out.push(mk_enum(n, &discs, ex, gated, 0));
                        if let Some(g) = gated {
                            // the cfg after another attribute / after a doc comment / as second of two cfgs
                            for style in 1..=3u8 {
                                let mut e = mk_enum(n, &discs, ex, gated, 0);
                                let gi = g % e.variants.len();
                                e.variants[gi].style = style;
                                out.push(e);
                            }
                        }
                    }
                    // the largest discriminant first / in the middle (order of declaration must not matter)
                    if discs.len() >= 3 {
                        let mut d1 = discs.clone();
                        d1.rotate_right(1);
                        out.push(mk_enum(n, &d1, ex, None, 0));
                        let mut d2 = discs.clone();
                        let last = d2.pop().unwrap();
                        d2.insert(1, last);
                        out.push(mk_enum(n, &d2, ex, None, 0));
                    }
                    if *md < full && n <= 4 {
                        for special in 1..=5u8 {
                            out.push(mk_enum(n, &discs, ex, None, special));
                        }
                    }
                }
                // all values present but in reversed order (order must not matter)
                if *c == full && *md == full - 1 {
                    let mut d2 = discs.clone();
                    d2.reverse();
                    for ex in exhs {
                        out.push(mk_enum(n, &d2, ex, None, 0));
                    }
                }
            }
        }
        // conditional: more than 2^n variants through a disabled duplicate
        let mut e = mk_enum(n, &(0..full).collect::<Vec<_>>(), Exh::Conditional, Some(0), 0);
        e.variants.push(Variant { name: "Off".into(), disc: Disc::Lit { value: 0, radix: 10, underscore: false }, cfg: Cfg::Never, style: 0 });
        out.push(e.clone());
        for ex in [Exh::True, Exh::False, Exh::Omitted] {
            let mut e2 = e.clone();
            e2.exhaustive = ex;
            out.push(e2);
        }
        // exactly 2^n variants listed, one of them compiled out (first / last / middle), all four flags
        for off in [0usize, (full as usize) - 1, (full as usize) / 2] {
            for ex in exhs {
                let mut e3 = mk_enum(n, &(0..full).collect::<Vec<_>>(), ex, None, 0);
                e3.variants[off].cfg = Cfg::Never;
                e3.variants[off].style = (off % 4) as u8;
                out.push(e3);
            }
        }
    }
    // storage-class boundaries
    for n in [7u32, 8, 9, 15, 16, 17, 31, 32, 33, 63, 64] {
        let full: u128 = 1u128 << n;
        for md in [full - 2, full - 1, full, full + 1] {
            if md > u64::MAX as u128 {
                continue; // not expressible as an enum discriminant at all
            }
            for c in [1u128, 2, 3] {
                if let Some(d) = discs_with_max(c, md) {
                    for ex in exhs {
                        out.push(mk_enum(n, &d, ex, None, 0));
                    }
                    out.push(mk_enum(n, &d, Exh::Conditional, Some(0), 0));
                    out.push(mk_enum(n, &d, Exh::False, Some(0), 0));
                }
            }
        }
    }
    // discriminants at the very top of u64 (the macro's own arithmetic must not wrap)
    for n in [33u32, 40, 48, 63] {
        for md in [u64::MAX as u128, (u64::MAX - 1) as u128, 1u128 << 63] {
            for ex in [Exh::False, Exh::Omitted, Exh::Conditional] {
                out.push(mk_enum(n, &[0, md], ex, None, 0));
                out.push(mk_enum(n, &[md, 1, 2], ex, None, 0));
            }
        }
    }
    // sizes outside 1..=64
    for n in [0u32, 65, 66, 100, 127, 128] {
        for ex in [Exh::False, Exh::Omitted, Exh::Conditional] {
            out.push(mk_enum(n, &[0, 1], ex, None, 0));
        }
    }
    // random acceptable declarations and one-step mutations of them
    let reps = tier.pick(60usize, 4000usize);
    let words = sample_choices(seed, 20, reps, 400);
    for (k, w) in words.iter().enumerate() {
        let mut src = Src::new(w);
        let n = match k % 3 {
            0 => src.range(1, 6),
            1 => src.pick(&[7u32, 8, 9, 15, 16, 17, 31, 32, 33, 63, 64]),
            _ => src.range(1, 64),
        };
        let plain = n <= 6 && src.chance(1, 2);
        let e = gen_enum(&mut src, "E", n, plain);
        out.push(e.clone());
        let full: u128 = 1u128 << n;
        // mutations
        let mut m1 = e.clone();
        m1.exhaustive = match e.exhaustive {
            Exh::True => Exh::False,
            Exh::False | Exh::Omitted => Exh::True,
            Exh::Conditional => Exh::True,
        };
        out.push(m1);
        let mut m2 = e.clone();
        let last = m2.variants.len() - 1;
        if full <= u64::MAX as u128 {
            m2.variants[last].disc = Disc::Lit { value: full, radix: 16, underscore: false };
            out.push(m2);
        }
        let mut m3 = e.clone();
        m3.variants[0].cfg = Cfg::Always;
        out.push(m3);
        let mut m4 = e.clone();
        m4.variants[last].disc = Disc::Missing;
        out.push(m4);
        if e.variants.len() >= 2 && e.exhaustive == Exh::True {
            let mut m5 = e.clone();
            m5.variants.pop();
            out.push(m5);
        }
    }
    // drop what the statement leaves open, de-duplicate
    let ro = RenderOpts::default();
    let mut seen = std::collections::HashSet::new();
    out.retain(|e| !matches!(enum_verdict(e), Verdict::Unspecified(_)) && seen.insert(render_enum(e, &ro)));
    out
}

fn enum_source(e: &EnumDecl, ro: &RenderOpts) -> String {
    // named constants used by the non-literal discriminant perturbation
    let mut s = String::new();
    for v in &e.variants {
        if let Disc::NonLit(t) = &v.disc {
            if let Some(n) = t.strip_prefix('K') {
                s.push_str(&format!("pub const {}: isize = {};\n", t, n));
            }
        }
    }
    let body = render_enum(e, ro);
    if e.variants.iter().any(|v| matches!(&v.disc, Disc::NonLit(t) if t.starts_with("b'"))) {
        s.push_str(&body.replacen("pub enum ", "#[repr(u8)]\npub enum ", 1));
    } else {
        s.push_str(&body);
    }
    s
}

pub fn run_c10(rc: &RunCtx) -> Outcome {
    let enums = c10_corpus(rc.tier, rc.seed);
    let ro = RenderOpts::default();
    let items: Vec<(usize, String)> = enums.iter().enumerate().map(|(i, e)| (i, enum_source(e, &ro))).collect();
    let mut disagreements = Vec::new();
    let mut evaluations = 0u64;
    let mut by_rule: BTreeMap<String, u64> = BTreeMap::new();
    let verdicts: Vec<Verdict> = enums.iter().map(enum_verdict).collect();
    for v in &verdicts {
        let k = match v {
            Verdict::Valid => "acceptable".to_string(),
            Verdict::Invalid(r) => r.join("+"),
            Verdict::Unspecified(_) => "unspecified".into(),
        };
        *by_rule.entry(k).or_insert(0) += 1;
    }
    let mut accepted_everywhere: Vec<bool> = vec![true; enums.len()];
    for mp in MACRO_PROFILES {
        let dv = check_decls(rc, "c10", &items, mp);
        for (i, e) in enums.iter().enumerate() {
            evaluations += 1;
            let errs = dv.get(&i).cloned().unwrap_or_default();
            let accepted = errs.is_empty();
            if !accepted {
                accepted_everywhere[i] = false;
            }
            let want = verdicts[i].is_valid();
            if accepted == want {
                continue;
            }
            let class = eprops::enum_class(e);
            let sig = match &verdicts[i] {
                Verdict::Valid => format!("reject-acceptable/{}", class),
                Verdict::Invalid(r) => format!("accept-unacceptable/{}/macro-{}", r.join("+"), mp),
                _ => unreachable!(),
            };
            disagreements.push(Disagreement {
                sig,
                summary: format!("C10 (macro {}): bitenum is {:?} but {}: {}\n{}", mp, verdicts[i], if accepted { "is accepted" } else { "is rejected" }, errs.first().cloned().unwrap_or_default(), items[i].1),
                source: items[i].1.clone(),
                probe: None,
                expect_accept: want,
                mp: mp.to_string(),
                extra: json!({"decl": e, "verdict": format!("{:?}", verdicts[i])}),
            });
        }
    }
    let (mut checked, mut dups) = (0u64, 0u64);
    let mut violations = confirm(rc, disagreements, 2, &mut checked, &mut dups);
    // behaviour part: every enum the macro accepts as exhaustive (returns Self) converts all 2^N values
    // without panicking; every accepted variant's raw_value() works
    let beh: Vec<(usize, EnumDecl)> = enums.iter().enumerate().filter(|(i, e)| accepted_everywhere[*i] && verdicts[*i].is_valid() && e.bits <= 16).map(|(i, e)| (i, e.clone())).collect();
    let mut beh_eval = 0u64;
    let mut beh_nontrivial = 0u64;
    if !beh.is_empty() {
        let out = eprops::run_enum_corpus(rc, &beh, "c10b", &["dev"], 500, 100_000);
        let o = eprops::summarize_enums(rc, &beh, out, "");
        beh_eval = o.coverage["evaluations"].as_u64().unwrap_or(0);
        beh_nontrivial = o.coverage["distinct_nontrivial"].as_u64().unwrap_or(0);
        violations.extend(o.violations);
    }
    let boundary = enums.len() as u64;
    let mut samples = Vec::new();
    for (i, e) in enums.iter().enumerate().filter(|(i, _)| verdicts[*i].is_invalid()).step_by(97).take(4) {
        samples.push(json!({"declaration": enum_source(e, &ro), "expected": format!("{:?}", verdicts[i])}));
    }
    for (_, e) in enums.iter().enumerate().filter(|(i, _)| verdicts[*i].is_valid()).step_by(53).take(2) {
        samples.push(json!({"declaration": enum_source(e, &ro), "expected": "accepted"}));
    }
    let coverage = json!({
        "programs": enums.len(),
        "evaluations": evaluations + beh_eval,
        "verdict_evaluations": evaluations,
        "behaviour_evaluations": beh_eval,
        "distinct_nontrivial": boundary + beh_nontrivial,
        "rule": "verdict cases = bitenum declarations x 2 macro profiles: for N = 1..6 (thorough: 8) the cross product variant count in {1, 2^N-1, 2^N, 2^N+1} x largest discriminant in {2^N-2, 2^N-1, 2^N, 2^N+1} x exhaustive in {true, false, omitted, conditional} x cfg-gated variant {none, first, last} x {missing, non-literal (sum, const, negative) discriminant}; storage-class boundaries N in {7..9, 15..17, 31..33, 63, 64}; sizes 0, 65.. ; random acceptable enums and one-step mutations. Expected verdict from the transcription of the statement (model::rules::enum_verdict); declarations rustc itself rejects (duplicate discriminants) are dropped. Every declaration is a boundary case by construction (non-trivial; distinct by text). Behaviour cases = (accepted enum with N <= 16, every raw value): conversion must not panic and must match the discriminant table",
        "samples": samples,
        "exhaustive": false,
        "by_expected_rule": by_rule,
        "disagreements_checked": checked,
        "further_disagreements_with_an_already_confirmed_signature": dups,
        "enums_run_behaviourally": beh.len(),
        "macro_profiles": MACRO_PROFILES,
    });
    Outcome {
        violations,
        coverage,
        assumptions: vec!["acceptance predicate transcribed from the statement; disagreements re-confirmed in a single-declaration crate".into()],
    }
}
