//! `bbv replay <file>`: re-run one recorded failing case against the current /repo, bypassing
//! every generator. The same routine drives the regression tier (`/verif/regressions/<ID>/*.json`,
//! replayed in every check of that property). `bbv warm`: pre-build dependencies.

use crate::bprops::{self, run_corpus, BConfig};
use crate::common::*;
use crate::emit::EmitOpts;
use crate::eprops;
use model::*;
use serde_json::Value;

fn load(path: &str) -> Value {
    let text = std::fs::read_to_string(path).unwrap_or_else(|e| inconclusive(&format!("cannot read replay file {}: {}", path, e)));
    serde_json::from_str(&text).unwrap_or_else(|e| inconclusive(&format!("bad replay file {}: {}", path, e)))
}

/// Ok(()) = the recorded case no longer fails; Err(what) = it still fails.
pub fn replay_doc(rc: &RunCtx, doc: &Value) -> Result<(), String> {
    let prop = rc.prop.clone();
    let kind = doc["kind"].as_str().unwrap_or("behaviour").to_string();
    match kind.as_str() {
        "behaviour" => {
            let layout: Layout = serde_json::from_value(doc["layout"].clone()).unwrap_or_else(|e| inconclusive(&format!("bad layout in replay: {}", e)));
            let profile: &'static str = match doc["profile"].as_str() {
                Some("release") => "release",
                Some("checked") => "checked",
                _ => "dev",
            };
            let base = bprops::config_for(&prop, Tier::Quick);
            let cfg = BConfig { profiles: vec![profile], ncrates: 1, ..base };
            let mut extra: Vec<String> = Vec::new();
            if !doc["case"].is_null() {
                extra.push("--replay".into());
                extra.push(serde_json::to_string(&doc["case"]).unwrap());
            }
            let layout_copy = layout.clone();
            let out = run_corpus(rc, &cfg, &[(0, layout)], "r", &extra, None);
            if let Some((_, msgs)) = out.uncompilable.first() {
                if !rules::layout_verdict(&layout_copy).is_valid() {
                    // an invalid declaration (e.g. an overhang probe) that is now rejected: the defect is gone
                    return Ok(());
                }
                return Err(format!("declaration does not compile: {:?}", msgs));
            }
            for (_, rs) in &out.results {
                for r in rs {
                    if let Some(f) = &r.failure {
                        return Err(format!("{}: {}", f.check, f.detail));
                    }
                }
            }
            Ok(())
        }
        "behaviour-digest" => {
            let layout: Layout = serde_json::from_value(doc["layout"].clone()).unwrap_or_else(|e| inconclusive(&format!("bad layout in replay: {}", e)));
            let base = bprops::config_for(&prop, Tier::Quick);
            let cfg = BConfig { profiles: vec!["dev", "release"], ncrates: 1, cases: doc["cases"].as_u64().unwrap_or(1000) as u32, ..base };
            let out = run_corpus(rc, &cfg, &[(0, layout.clone())], "r", &[], None);
            let o = bprops::summarize(rc, &cfg, &[(0, layout)], out);
            match o.violations.first() {
                Some(v) => Err(v.summary.clone()),
                None => Ok(()),
            }
        }
        "enum" => {
            let decl: EnumDecl = serde_json::from_value(doc["decl"].clone()).unwrap_or_else(|e| inconclusive(&format!("bad enum in replay: {}", e)));
            let out = eprops::run_enum_corpus(rc, &[(0, decl)], "r", &["dev"], 1000, 100_000);
            if let Some((_, msgs)) = out.uncompilable.first() {
                return Err(format!("enum does not compile: {:?}", msgs));
            }
            for (_, rs) in &out.results {
                for r in rs {
                    if let Some(f) = &r.failure {
                        return Err(format!("{}: {}", f.check, f.detail));
                    }
                }
            }
            Ok(())
        }
        "surface" => crate::c17x::replay_doc(rc, doc),
        other => crate::vprops::replay_doc(rc, other, doc),
    }
}

pub fn replay(path: &str) -> ! {
    let doc = load(path);
    let prop = doc["property"].as_str().unwrap_or_else(|| inconclusive("replay file has no property")).to_string();
    let mut rc = RunCtx::new(&prop, Tier::Quick, doc["seed"].as_u64().unwrap_or(0));
    rc.work = std::path::PathBuf::from(format!("{}/work/replay-{}", verif(), prop));
    rc.write_evidence = false;
    match replay_doc(&rc, &doc) {
        Err(what) => {
            println!("# {}", what.replace('\n', " "));
            println!("VIOLATION property={} replay={}", prop, path);
            std::process::exit(1);
        }
        Ok(()) => {
            println!("REPLAY-PASS property={} file={} (the recorded case no longer fails)", prop, path);
            std::process::exit(0);
        }
    }
}

/// Regression tier: replays of defects that were found and repaired, committed under
/// /verif/regressions/<ID>/. A replay that fails again is a violation with signature
/// `regression/<file stem>`.
pub fn regressions(rc: &RunCtx) -> (Vec<Violation>, u64) {
    let dir = format!("{}/regressions/{}", verif(), rc.prop);
    let mut files: Vec<std::path::PathBuf> = match std::fs::read_dir(&dir) {
        Ok(rd) => rd.filter_map(|e| e.ok()).map(|e| e.path()).filter(|p| p.extension().map(|x| x == "json").unwrap_or(false)).collect(),
        Err(_) => return (vec![], 0),
    };
    files.sort();
    let mut sub = RunCtx::new(&rc.prop, rc.tier, rc.seed);
    sub.work = rc.work.join("regress");
    sub.write_evidence = false;
    let mut out = Vec::new();
    let mut n = 0;
    for f in files {
        let doc = load(f.to_str().unwrap());
        n += 1;
        if let Err(what) = replay_doc(&sub, &doc) {
            let stem = f.file_stem().map(|s| s.to_string_lossy().to_string()).unwrap_or_default();
            out.push(Violation { sig: format!("regression/{}", stem), summary: format!("{}: regression replay {} fails again: {}", rc.prop, f.display(), what), replay: doc });
        }
    }
    (out, n)
}

pub fn warm() -> ! {
    let mut rc = RunCtx::new("C16", Tier::Quick, 0);
    rc.work = std::path::PathBuf::from(format!("{}/work/warm", verif()));
    rc.write_evidence = false;
    let layouts: Vec<(usize, Layout)> = crate::corpus::corpus("C16", Tier::Quick, 0).into_iter().take(8).collect();
    let cfg = BConfig { emit: EmitOpts { builder: true, ..EmitOpts::accessors() }, profiles: vec!["dev", "release", "checked"], cases: 50, max_ops: 8, exh_budget: 1000, ncrates: 2, tolerant: false };
    let out = run_corpus(&rc, &cfg, &layouts, "b", &[], None);
    println!("warm: built {} layouts in {:.1}s", layouts.len(), out.build_s);
    crate::vprops::warm(&rc);
    // nightly target directory used by C18's expansion scan
    let dir = rc.work.join("r-warm");
    crate::emit::write_v_crate_n(
        &dir,
        "rcrate_c18",
        &[("d0".to_string(), "//! generated module\n#![allow(unused_imports)]\nuse arbitrary_int::*;\n/// a bitfield\n#[bitbybit::bitfield(u8)]\npub struct S {\n    /// a field\n    #[bits(0..=3, rw)]\n    a: u4,\n}\n".to_string())],
        true,
        true,
        1,
    );
    match crate::c18::expand_text(&dir, "rcrate_c18") {
        Ok(t) => println!("warm: nightly expansion works ({} bytes)", t.len()),
        Err(e) => println!("warm: nightly expansion failed: {}", e),
    }
    std::process::exit(0);
}
