//! bbv — driver of the bitbybit property-based verification framework.
//!
//!   bbv check <ID> [--tier quick|thorough]      (VERIF_SEED, VERIF_TIER are honoured)
//!   bbv replay <file>
//!   bbv warm                                    (pre-build dependencies of generated crates)

#![allow(dead_code)]
mod bprops;
mod c09;
mod c15;
mod c17x;
mod c18;
mod cargo;
mod common;
mod corpus;
mod emit;
mod eprops;
mod gen;
mod replay;
mod shrink;
mod vchecks;
mod vprops;

use common::*;

fn usage() -> ! {
    eprintln!("usage: bbv check <C01..C19> [--tier quick|thorough] | bbv replay <file> | bbv warm");
    std::process::exit(2);
}

pub fn dispatch(rc: &RunCtx) -> Outcome {
    match rc.prop.as_str() {
        "C01" | "C02" | "C03" | "C04" | "C05" | "C06" | "C08" | "C11" | "C12" | "C13" | "C16" | "C19" => bprops::run(rc),
        "C07" => eprops::run_c07(rc),
        "C09" => c09::run(rc),
        "C10" => vchecks::run_c10(rc),
        "C14" => vchecks::run_c14(rc),
        "C15" => c15::run(rc),
        "C18" => c18::run(rc),
        "C17" => vchecks::run_c17(rc),
        _ => usage(),
    }
}

fn main() {
    let args: Vec<String> = std::env::args().collect();
    if args.len() < 2 {
        usage();
    }
    match args[1].as_str() {
        "check" if args.len() >= 3 => {
            let prop = args[2].to_uppercase();
            let mut tier = match std::env::var("VERIF_TIER").ok().as_deref() {
                Some("thorough") => Tier::Thorough,
                _ => Tier::Quick,
            };
            let mut i = 3;
            while i < args.len() {
                if args[i] == "--tier" && i + 1 < args.len() {
                    tier = if args[i + 1] == "thorough" { Tier::Thorough } else { Tier::Quick };
                    i += 1;
                }
                i += 1;
            }
            let rc = RunCtx::new(&prop, tier, seed_from_env());
            let mut out = dispatch(&rc);
            // regression tier: replays of repaired defects (seconds)
            let (rv, n) = replay::regressions(&rc);
            out.coverage["regression_replays_run"] = serde_json::json!(n);
            out.violations.extend(rv);
            finish(&rc, out);
        }
        "replay" if args.len() >= 3 => replay::replay(&args[2]),
        "warm" => replay::warm(),
        _ => usage(),
    }
}
