//! bbv — driver of the bitbybit property-based verification framework.
//!
//!   bbv check <ID> [--tier quick|thorough]      (VERIF_SEED, VERIF_TIER are honoured)
//!   bbv replay <file>

#![allow(dead_code)]
mod bprops;
mod cargo;
mod common;
mod corpus;
mod emit;
mod gen;

use common::*;

fn usage() -> ! {
    eprintln!("usage: bbv check <C01..C19> [--tier quick|thorough] | bbv replay <file>");
    std::process::exit(2);
}

fn main() {
    let args: Vec<String> = std::env::args().collect();
    if args.len() < 3 {
        usage();
    }
    match args[1].as_str() {
        "check" => {
            let prop = args[2].to_uppercase();
            let mut tier = match std::env::var("VERIF_TIER").ok().as_deref() {
                Some("thorough") => Tier::Thorough,
                _ => Tier::Quick,
            };
            let mut i = 3;
            while i < args.len() {
                if args[i] == "--tier" && i + 1 < args.len() {
                    tier = if args[i + 1] == "thorough" { Tier::Thorough } else { Tier::Quick };
                    i += 1;
                }
                i += 1;
            }
            let rc = RunCtx::new(&prop, tier, seed_from_env());
            let out = match prop.as_str() {
                "C01" | "C02" | "C03" | "C04" | "C05" | "C08" | "C12" => bprops::run(&rc),
                _ => usage(),
            };
            finish(&rc, out);
        }
        _ => usage(),
    }
}
