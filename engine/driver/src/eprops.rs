//! C07: bitenum conversions, decided by compiled B-crates of generated enums.

use crate::bprops::{profile_dir, profile_flag};
use crate::cargo::{self, cargo};
use crate::common::*;
use crate::corpus;
use crate::emit::*;
use model::render::{render_enum, RenderOpts};
use model::*;
use rt::run::LayoutResult;
use serde_json::{json, Value};
use std::collections::BTreeMap;
use std::process::Command;

pub struct EOut {
    pub results: Vec<(String, Vec<LayoutResult>)>,
    pub uncompilable: Vec<(usize, Vec<String>)>,
}

pub fn run_enum_corpus(rc: &RunCtx, enums: &[(usize, EnumDecl)], tag: &str, profiles: &[&str], cases: u32, exh_budget: u64) -> EOut {
    let dir = rc.work.join(tag);
    let prefix = format!("{}{}x", rc.prop.to_lowercase(), tag);
    let mut live: Vec<(usize, EnumDecl)> = enums.to_vec();
    let mut uncompilable = Vec::new();
    let mut results = Vec::new();
    for (pi, profile) in profiles.iter().enumerate() {
        let mut crates;
        let mut attempts = 0;
        loop {
            let modules: Vec<(String, String)> = live.iter().map(|(id, e)| (format!("m{}", id), emit_enum_module(*id, e, None))).collect();
            crates = write_b_workspace(&dir, &prefix, &modules, 16, true);
            let mut args: Vec<String> = vec!["build".into(), "--offline".into(), "--message-format=json".into()];
            args.extend(profile_flag(profile));
            let argv: Vec<&str> = args.iter().map(|s| s.as_str()).collect();
            let out = cargo(&dir, None, &argv, "gen", &[]);
            if out.success {
                break;
            }
            attempts += 1;
            let macro_broken = out.diags.iter().any(|d| d.level == "error" && d.package.contains("bitbybit")) || out.stderr.contains("could not compile `bitbybit`");
            if macro_broken {
                inconclusive(&format!("the bitbybit crate does not build from /repo: {}", cargo::tail(&out.stderr, 5)));
            }
            let (by_mod, un) = cargo::attribute(&out.diags);
            if by_mod.is_empty() || attempts > 3 || pi > 0 {
                inconclusive(&format!("generated enum corpus does not build: {} unattributed errors; {}", un.len(), cargo::tail(&out.stderr, 8)));
            }
            for (m, msgs) in by_mod {
                if let Some(id) = m.strip_prefix('m').and_then(|x| x.parse::<usize>().ok()) {
                    live.retain(|(i, _)| *i != id);
                    uncompilable.push((id, msgs.into_iter().map(|(l, t)| format!("line {}: {}", l, t)).collect()));
                }
            }
            if live.is_empty() {
                break;
            }
        }
        let mut all: Vec<LayoutResult> = Vec::new();
        if !live.is_empty() {
            for c in &crates {
                let bin = format!("{}/gen/{}/{}", cargo::target_root(), profile_dir(profile), c.name);
                let outp = dir.join(format!("{}.{}.result.json", c.name, profile));
                let _ = std::fs::remove_file(&outp);
                let st = Command::new(&bin)
                    .args(["--prop", &rc.prop, "--seed", &rc.seed.to_string(), "--cases", &cases.to_string(), "--out", outp.to_str().unwrap()])
                    .args(["--threads", "16", "--exh-budget", &exh_budget.to_string()])
                    .output();
                match st {
                    Ok(o) if o.status.success() => {}
                    Ok(o) => inconclusive(&format!("generated binary {} failed: {}", bin, o.status)),
                    Err(e) => inconclusive(&format!("cannot run {}: {}", bin, e)),
                }
                let text = std::fs::read_to_string(&outp).unwrap_or_else(|e| inconclusive(&format!("no result file: {}", e)));
                let mut r: Vec<LayoutResult> = serde_json::from_str(&text).unwrap_or_else(|e| inconclusive(&format!("bad result file: {}", e)));
                all.append(&mut r);
            }
        }
        all.sort_by_key(|r| r.id);
        results.push((profile.to_string(), all));
        rc.watchdog();
    }
    EOut { results, uncompilable }
}

pub fn enum_class(e: &EnumDecl) -> String {
    format!(
        "{}{}/{:?}",
        if e.is_native_storage() { "native" } else { "arb-in-u" },
        e.storage_bits(),
        e.exhaustive
    )
}

pub fn run_c07(rc: &RunCtx) -> Outcome {
    let enums = corpus::enum_corpus(rc.tier, rc.seed);
    for (id, e) in &enums {
        if rules::enum_verdict(e) != rules::Verdict::Valid {
            inconclusive(&format!("generator bug: enum {} is not acceptable: {:?}\n{}", id, rules::enum_verdict(e), render_enum(e, &RenderOpts::default())));
        }
    }
    let profiles: Vec<&str> = rc.tier.pick(vec!["dev"], vec!["dev", "release"]);
    let out = run_enum_corpus(rc, &enums, "e", &profiles, rc.tier.pick(3000, 30000), rc.tier.pick(100_000, 2_000_000));
    summarize_enums(rc, &enums, out, "cases = (accepted bitenum, raw value x): all 2^N values for N <= 16 (thorough: <= 20), otherwise every discriminant, its neighbours and one-bit flips, 0, max, one-hot values and uniform values. new_with_raw_value(x) compared with the discriminant table (adapter's own match), raw_value() of the hit variant compared with x. Non-trivial: enum has >= 2 variants; distinct by (enum, x)")
}

pub fn summarize_enums(rc: &RunCtx, enums: &[(usize, EnumDecl)], out: EOut, rule: &str) -> Outcome {
    let by_id: BTreeMap<usize, &EnumDecl> = enums.iter().map(|(i, e)| (*i, e)).collect();
    let ro = RenderOpts::default();
    let mut violations = Vec::new();
    let (mut evaluations, mut nontrivial, mut exhaustive, mut hit_and_miss) = (0u64, 0u64, 0u64, 0u64);
    let mut samples: Vec<Value> = Vec::new();
    let mut classes: BTreeMap<String, u64> = BTreeMap::new();
    for (id, msgs) in &out.uncompilable {
        let e = by_id[id];
        violations.push(Violation {
            sig: format!("acceptable-enum-does-not-compile/{}", enum_class(e)),
            summary: format!("{}: acceptable bitenum does not compile: {}", rc.prop, msgs.first().cloned().unwrap_or_default()),
            replay: json!({"kind": "enum", "decl": e, "source": render_enum(e, &ro), "case": Value::Null, "check": "does-not-compile", "detail": msgs}),
        });
    }
    for (profile, results) in &out.results {
        for r in results {
            let e = by_id[&r.id];
            evaluations += r.evaluations;
            nontrivial += r.nontrivial_distinct;
            if r.exhaustive {
                exhaustive += 1;
            }
            let hits = r.extra.get("hits").copied().unwrap_or(0);
            let misses = r.extra.get("misses").copied().unwrap_or(0);
            if hits > 0 && (misses > 0 || e.returns_plain()) {
                hit_and_miss += 1;
            }
            if let Some(f) = &r.failure {
                if f.check.starts_with("harness") || f.detail.contains("ADAPTER-BUG") {
                    inconclusive(&format!("harness problem in enum {}: {} {}", r.id, f.check, f.detail));
                }
                violations.push(Violation {
                    sig: format!("{}/{}", f.check, enum_class(e)),
                    summary: format!("{} [{}] {}: {}\n{}", rc.prop, profile, f.check, f.detail, render_enum(e, &ro)),
                    replay: json!({"kind": "enum", "decl": e, "source": render_enum(e, &ro), "case": f.case, "check": f.check, "detail": f.detail, "profile": profile}),
                });
            }
            if samples.len() < 5 && !r.samples.is_empty() && r.id % 11 == 0 {
                samples.push(json!({"declaration": render_enum(e, &ro), "case": r.samples[0]}));
            }
        }
    }
    for (_, e) in enums {
        *classes.entry(enum_class(e)).or_insert(0) += 1;
    }
    if samples.is_empty() {
        if let Some((_, rs)) = out.results.first() {
            for r in rs {
                if let Some(s) = r.samples.first() {
                    samples.push(json!({"declaration": render_enum(by_id[&r.id], &ro), "case": s}));
                    break;
                }
            }
        }
    }
    let coverage = json!({
        "programs": enums.len(),
        "evaluations": evaluations,
        "distinct_nontrivial": nontrivial,
        "rule": rule,
        "samples": samples,
        "exhaustive": false,
        "enums_swept_exhaustively": exhaustive,
        "enums_with_hit_and_miss_exercised": hit_and_miss,
        "class_histogram": classes,
        "profiles": out.results.iter().map(|r| r.0.clone()).collect::<Vec<_>>(),
        "uncompilable_acceptable_enums": out.uncompilable.len(),
    });
    Outcome {
        violations,
        coverage,
        assumptions: vec![
            "rustc/cargo 1.95 and arbitrary-int 1.3.0 are trusted".into(),
            "the discriminant table comes from the generated declaration (model::EnumDecl), the adapter maps variants with its own match".into(),
        ],
    }
}
