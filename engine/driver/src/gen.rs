//! Level-1 generators: rule-valid declarations by construction from a choice sequence.
//!
//! A proptest strategy produces the choice sequence (`Vec<u32>`); `build_layout` is a total
//! function from (profile, choices) to a layout that satisfies the documented layout rules: it
//! keeps a free-bit map, places every range into free space (or anywhere when the profile allows
//! overlap), and degrades a field to something narrower when it does not fit. No rejection.

use model::*;
use proptest::prelude::{any, Strategy};
use proptest::strategy::ValueTree;
use proptest::test_runner::{Config, RngAlgorithm, TestRng, TestRunner};

pub struct Src<'a> {
    words: &'a [u32],
    pos: usize,
}

impl<'a> Src<'a> {
    pub fn new(words: &'a [u32]) -> Src<'a> {
        Src { words, pos: 0 }
    }
    pub fn word(&mut self) -> u32 {
        let w = self.words.get(self.pos).copied().unwrap_or(0);
        self.pos += 1;
        w
    }
    /// monotone map onto 0..n
    pub fn below(&mut self, n: u32) -> u32 {
        if n == 0 {
            return 0;
        }
        ((self.word() as u64 * n as u64) >> 32) as u32
    }
    pub fn range(&mut self, lo: u32, hi: u32) -> u32 {
        if hi <= lo {
            return lo;
        }
        lo + self.below(hi - lo + 1)
    }
    pub fn chance(&mut self, num: u32, den: u32) -> bool {
        self.below(den) < num
    }
    pub fn pick<T: Clone>(&mut self, v: &[T]) -> T {
        v[self.below(v.len() as u32) as usize].clone()
    }
    pub fn weighted(&mut self, w: &[u32]) -> usize {
        let total: u32 = w.iter().sum();
        if total == 0 {
            return 0;
        }
        let mut x = self.below(total);
        for (i, wi) in w.iter().enumerate() {
            if x < *wi {
                return i;
            }
            x -= wi;
        }
        w.len() - 1
    }
    pub fn u128(&mut self) -> u128 {
        let a = self.word() as u128;
        let b = self.word() as u128;
        let c = self.word() as u128;
        let d = self.word() as u128;
        a | (b << 32) | (c << 64) | (d << 96)
    }
}

/// Deterministic sample of `n` choice sequences from a proptest strategy.
pub fn sample_choices(seed: u64, stream: u64, n: usize, len: usize) -> Vec<Vec<u32>> {
    let mut sb = [0u8; 32];
    let mut h = mix_all(&[seed, stream, 0x6C61796F757473]);
    for k in 0..4 {
        h = mix64(h ^ k as u64);
        sb[k * 8..k * 8 + 8].copy_from_slice(&h.to_le_bytes());
    }
    let rng = TestRng::from_seed(RngAlgorithm::ChaCha, &sb);
    let mut runner = TestRunner::new_with_rng(Config { failure_persistence: None, ..Config::default() }, rng);
    let strat = proptest::collection::vec(any::<u32>(), len..=len);
    (0..n).map(|_| strat.new_tree(&mut runner).expect("tree").current()).collect()
}

#[derive(Clone, Copy, Debug, PartialEq, Eq)]
pub enum BaseMode {
    Any,
    ArbOnly,
    /// bias towards bases of at most 12 bits (exhaustive sweeps)
    SmallBias,
}

#[derive(Clone, Copy, Debug, PartialEq, Eq)]
pub enum AccessMode {
    AllRW,
    AllR,
    /// rw / r / w (w fields get an r twin over the same bits when `w_twin`)
    Mixed,
    /// r / w / rw / none
    MixedWithNone,
}

#[derive(Clone, Copy, Debug, PartialEq, Eq)]
pub enum DefaultMode {
    Never,
    Maybe,
    Always,
}

#[derive(Clone, Debug)]
pub struct Profile {
    pub base: BaseMode,
    /// weights: bool, uarb, unat, inat, enum plain, enum option, nested
    pub kinds: [u32; 7],
    /// weights: scalar, array, list, list array
    pub shapes: [u32; 4],
    pub overlap: bool,
    pub access: AccessMode,
    pub max_fields: u32,
    pub default: DefaultMode,
    pub debug: bool,
    /// make the layout satisfy the builder predicate (adds a default when incomplete)
    pub need_builder: bool,
    /// add a read-only twin field over the bits of every write-only field
    pub w_twin: bool,
    /// every layout must contain at least one field of the emphasised kind/shape (index into kinds / shapes)
    pub force_kind: Option<usize>,
    pub force_shape: Option<usize>,
    /// no array fields at all (C19)
    pub max_array: u32,
    /// make sure at least one field is writable / readable
    pub ensure_writable: bool,
    pub ensure_readable: bool,
}

impl Profile {
    pub fn general() -> Profile {
        Profile {
            base: BaseMode::Any,
            kinds: [3, 6, 4, 2, 1, 1, 1],
            shapes: [6, 2, 2, 1],
            overlap: false,
            access: AccessMode::AllRW,
            max_fields: 5,
            default: DefaultMode::Maybe,
            debug: false,
            need_builder: false,
            w_twin: false,
            force_kind: None,
            force_shape: None,
            max_array: 16,
            ensure_writable: true,
            ensure_readable: true,
        }
    }
}

/// companions of a field name `x` that a user may well declare next to it and that a future version of the macro
/// might want for generated items of its own
pub const NAME_SUFFIXES: [&str; 16] = ["_raw", "_mask", "_bits", "_shift", "_width", "_offset", "_mut", "_or", "_lsb", "_msb", "_value", "_default", "_count", "_range", "_unchecked", "_checked"];
pub const NAME_PREFIXES: [&str; 14] = ["try_with_", "try_set_", "get_", "is_", "has_", "clear_", "toggle_", "raw_", "update_", "modify_", "read_", "write_", "mask_", "with_raw_"];

pub const ARB_BOUNDARY: [u32; 22] = [1, 2, 3, 4, 5, 7, 9, 10, 12, 15, 17, 24, 31, 33, 48, 63, 65, 96, 100, 120, 126, 127];

pub fn choose_base(s: &mut Src, mode: BaseMode) -> u32 {
    let arb = |s: &mut Src| -> u32 {
        if s.chance(1, 2) {
            s.pick(&ARB_BOUNDARY)
        } else {
            loop {
                let b = s.range(1, 127);
                if !is_native_width(b) {
                    return b;
                }
            }
        }
    };
    match mode {
        BaseMode::Any => {
            if s.chance(2, 5) {
                s.pick(&[8, 16, 32, 64, 128])
            } else {
                arb(s)
            }
        }
        BaseMode::ArbOnly => arb(s),
        BaseMode::SmallBias => {
            if s.chance(1, 2) {
                s.pick(&[1, 2, 3, 4, 5, 6, 7, 8, 9, 10, 11, 12])
            } else if s.chance(1, 3) {
                s.pick(&[8, 16, 32, 64, 128])
            } else {
                arb(s)
            }
        }
    }
}

/// free runs (lo, len) of `free` within 0..bits
fn free_runs(occupied: u128, bits: u32) -> Vec<(u32, u32)> {
    let mut runs = Vec::new();
    let mut b = 0;
    while b < bits {
        if (occupied >> b) & 1 == 0 {
            let lo = b;
            while b < bits && (occupied >> b) & 1 == 0 {
                b += 1;
            }
            runs.push((lo, b - lo));
        } else {
            b += 1;
        }
    }
    runs
}

fn range_mask(lo: u32, len: u32) -> u128 {
    mask(len) << lo
}

/// choose a position for `w` contiguous bits; returns lo
fn place(s: &mut Src, occupied: u128, bits: u32, w: u32, overlap: bool) -> Option<u32> {
    if w > bits {
        return None;
    }
    if overlap {
        return Some(match s.below(4) {
            0 => 0,
            1 => bits - w,
            _ => s.range(0, bits - w),
        });
    }
    let runs: Vec<(u32, u32)> = free_runs(occupied, bits).into_iter().filter(|r| r.1 >= w).collect();
    if runs.is_empty() {
        return None;
    }
    let (lo, len) = s.pick(&runs);
    Some(match s.below(4) {
        0 | 1 => lo,
        2 => lo + len - w,
        _ => s.range(lo, lo + len - w),
    })
}

fn widest_free(occupied: u128, bits: u32) -> u32 {
    free_runs(occupied, bits).iter().map(|r| r.1).max().unwrap_or(0)
}

pub fn gen_enum(s: &mut Src, name: &str, bits: u32, plain: bool) -> EnumDecl {
    let m = mask(bits);
    let radix = |s: &mut Src| s.pick(&[10u8, 16, 2, 10, 16, 8]);
    let mut variants = Vec::new();
    if plain {
        // exhaustive: all 2^bits values, in shuffled order
        let n = 1u32 << bits;
        let mut order: Vec<u32> = (0..n).collect();
        if s.chance(1, 2) {
            // Fisher-Yates driven by the choice sequence
            for i in (1..order.len()).rev() {
                let j = s.below(i as u32 + 1) as usize;
                order.swap(i, j);
            }
        }
        for (k, d) in order.iter().enumerate() {
            variants.push(Variant {
                name: format!("V{}", k),
                disc: Disc::Lit { value: *d as u128, radix: radix(s), underscore: s.chance(1, 4) },
                cfg: Cfg::None,
                style: 0,
            });
        }
        return EnumDecl {
            name: name.to_string(),
            bits,
            variants,
            exhaustive: Exh::True,
            colon: s.chance(1, 5),
            qualified: false,
            args_swapped: false,
        };
    }
    // non-exhaustive: random distinct discriminants, always trying 0, max and neighbours
    // mostly up to 12 variants; one enum in five (of at least 6 bits) has up to 40
    let max_variants = if bits >= 6 && s.chance(1, 5) { 40 } else if bits >= 5 { 12 } else { (1u32 << bits) - 1 };
    let n = s.range(1, max_variants.max(1));
    let mut discs: Vec<u128> = Vec::new();
    let cands = [0u128, m, m - 1.min(m), 1 & m, m >> 1, (m >> 1) + 1];
    for _ in 0..n {
        let d = if s.chance(1, 2) { s.pick(&cands) } else { s.u128() & m };
        if !discs.contains(&d) {
            discs.push(d);
        }
    }
    if discs.len() as u128 == (m + 1) {
        discs.pop();
    }
    if discs.is_empty() {
        discs.push(0);
        if m == 0 {
            // cannot happen: bits >= 1
        }
    }
    let conditional = s.chance(1, 4);
    for (k, d) in discs.iter().enumerate() {
        let cfg = if conditional && s.chance(1, 3) { Cfg::Always } else { Cfg::None };
        let style = if s.chance(1, 4) { s.below(4) as u8 } else { 0 };
        variants.push(Variant {
            name: format!("V{}", k),
            disc: Disc::Lit { value: *d, radix: radix(s), underscore: s.chance(1, 4) },
            cfg,
            style,
        });
    }
    let mut twins = 0;
    while conditional && twins < 4 && s.chance(1, 2) {
        twins += 1;
        // a disabled variant (up to four of them), possibly sharing a discriminant with an enabled one
        let d = if s.chance(2, 3) { discs[s.below(discs.len() as u32) as usize] } else { s.u128() & m };
        let at = s.below(variants.len() as u32 + 1) as usize;
        variants.insert(
            at,
            Variant { name: format!("V{}", variants.len()), disc: Disc::Lit { value: d, radix: 10, underscore: false }, cfg: Cfg::Never, style: s.below(4) as u8 },
        );
    }
    let exhaustive = if conditional {
        Exh::Conditional
    } else if s.chance(1, 3) {
        Exh::Omitted
    } else {
        Exh::False
    };
    EnumDecl { name: name.to_string(), bits, variants, exhaustive, colon: s.chance(1, 5), qualified: false, args_swapped: s.chance(1, 4) }
}

pub fn unsigned_ty(s: &mut Src, w: u32) -> FieldTy {
    if is_native_width(w) {
        FieldTy::UNat { bits: w }
    } else {
        FieldTy::UArb { bits: w, qualified: s.chance(1, 8) }
    }
}

fn inner_layout(s: &mut Src, name: &str, bits: u32, debug: bool) -> Layout {
    // small inner bitfield with 0..2 unsigned fields
    let mut fields = Vec::new();
    let mut occupied = 0u128;
    let n = s.below(3);
    for k in 0..n {
        let free = widest_free(occupied, bits);
        if free == 0 {
            break;
        }
        let w = s.range(1, free.min(127));
        if let Some(lo) = place(s, occupied, bits, w, false) {
            occupied |= range_mask(lo, w);
            let ty = if w == 1 && s.chance(1, 2) { FieldTy::Bool } else { unsigned_ty(s, w) };
            let is_bool = matches!(ty, FieldTy::Bool);
            fields.push(Field {
                name: format!("g{}", k),
                kw_bit: is_bool,
                list: false,
                ranges: vec![if is_bool { Rng::bit(lo) } else { Rng::new(lo, lo + w - 1) }],
                array: None,
                ty,
                access: Access::RW,
                arg_order: 0,
                opt_path: 0,
                huge: None,
                zero_pad: false,
            });
        }
    }
    // one inner type in four is not a bitfield but a hand-written newtype offering the two conversions
    let handwritten = if s.chance(1, 4) { s.range(1, 2) as u8 } else { 0 };
    if handwritten != 0 {
        fields.clear();
    }
    Layout { name: name.to_string(), base_bits: bits, default: None, default_colon: false, debug, fields, enums: vec![], inners: vec![], debug_first: false, vis: 0, decoys: 0, derives: 0, handwritten, macro_wrap: 0 }
}

/// split w into `parts` positive integers
fn split_width(s: &mut Src, w: u32, parts: u32) -> Vec<u32> {
    let mut cuts: Vec<u32> = Vec::new();
    while (cuts.len() as u32) < parts - 1 {
        let c = s.range(1, w - 1);
        if !cuts.contains(&c) {
            cuts.push(c);
        } else {
            // deterministic fallback: first unused cut
            for c in 1..w {
                if !cuts.contains(&c) {
                    cuts.push(c);
                    break;
                }
            }
        }
    }
    cuts.sort();
    let mut out = Vec::new();
    let mut prev = 0;
    for c in cuts {
        out.push(c - prev);
        prev = c;
    }
    out.push(w - prev);
    out
}

pub fn build_layout(p: &Profile, words: &[u32]) -> Layout {
    let mut s = Src::new(words);
    let bits = choose_base(&mut s, p.base);
    build_layout_on(p, &mut s, bits)
}

pub fn build_layout_on(p: &Profile, s: &mut Src, bits: u32) -> Layout {
    let mut l = Layout { name: "S".into(), base_bits: bits, default: None, default_colon: false, debug: p.debug, fields: vec![], enums: vec![], inners: vec![], debug_first: false, vis: 0, decoys: 0, derives: 0, handwritten: 0, macro_wrap: 0 };
    let mut occupied = 0u128;
    let n_fields = s.range(1, p.max_fields);
    let mut forced_kind_done = p.force_kind.is_none();
    let mut forced_shape_done = p.force_shape.is_none();
    for k in 0..n_fields {
        let mut kind = s.weighted(&p.kinds);
        let mut shape = s.weighted(&p.shapes);
        if !forced_kind_done {
            kind = p.force_kind.unwrap();
        }
        if !forced_shape_done {
            shape = p.force_shape.unwrap();
        }
        if p.max_array < 2 {
            shape = match shape {
                1 => 0,
                3 => 2,
                x => x,
            };
        }
        let avail = if p.overlap { bits } else { widest_free(occupied, bits) };
        let total_free = if p.overlap { bits } else { bits - occupied.count_ones().min(bits) };
        if avail == 0 {
            break;
        }
        // ---- width by kind
        // kinds: 0 bool, 1 uarb, 2 unat, 3 inat, 4 enum plain, 5 enum option, 6 nested
        let is_list = shape == 2 || shape == 3;
        let cap = if is_list { total_free } else { avail };
        let natives: Vec<u32> = [8u32, 16, 32, 64, 128].iter().copied().filter(|w| *w <= cap).collect();
        if (kind == 2 || kind == 3) && natives.is_empty() {
            kind = 1;
        }
        if kind == 1 && cap == 8 && false {
            kind = 2;
        }
        let w: u32 = match kind {
            0 => 1,
            1 => {
                // arbitrary width (non native) or native when it happens to be; resolved below
                let hi = cap.min(127);
                let w = match s.below(4) {
                    0 => s.range(1, hi.min(8)),
                    1 => hi,
                    _ => s.range(1, hi),
                };
                w
            }
            2 | 3 => s.pick(&natives),
            4 => s.range(1, cap.min(6)),
            5 => {
                let hi = cap.min(64);
                match s.below(3) {
                    0 => s.range(1, hi.min(8)),
                    1 => s.pick(&[1u32, 7, 8, 9, 15, 16, 17, 31, 32, 33, 63, 64]).min(hi),
                    _ => s.range(1, hi),
                }
            }
            _ => {
                let hi = cap.min(128);
                match s.below(3) {
                    0 => s.range(1, hi.min(12)),
                    1 => s.pick(&[1u32, 7, 8, 9, 15, 16, 17, 31, 32, 33, 63, 64, 65, 127, 128]).min(hi),
                    _ => s.range(1, hi),
                }
            }
        };
        let ty = match kind {
            0 => FieldTy::Bool,
            1 => unsigned_ty(s, w),
            2 => FieldTy::UNat { bits: w },
            3 => FieldTy::INat { bits: w },
            4 => {
                let e = gen_enum(s, &format!("E{}", l.enums.len()), w, true);
                l.enums.push(e);
                FieldTy::Enum { idx: l.enums.len() - 1, option: false }
            }
            5 => {
                let e = gen_enum(s, &format!("E{}", l.enums.len()), w, false);
                l.enums.push(e);
                FieldTy::Enum { idx: l.enums.len() - 1, option: true }
            }
            _ => {
                let il = inner_layout(s, &format!("I{}", l.inners.len()), w, p.debug);
                l.inners.push(il);
                FieldTy::Nested { idx: l.inners.len() - 1 }
            }
        };
        let is_bool = matches!(ty, FieldTy::Bool);
        // bool fields are always a single contiguous bit
        let shape = if is_bool && is_list { shape - 2 } else { shape };
        let is_list = shape == 2 || shape == 3;
        let want_array = shape == 1 || shape == 3;

        // ---- ranges of element 0
        let mut ranges: Vec<Rng> = Vec::new();
        let mut elem_mask = 0u128;
        if is_list && w >= 2 {
            let parts = s.range(2, w.min(8));
            let widths = split_width(s, w, parts);
            let mut occ = occupied;
            let mut ok = true;
            for pw in &widths {
                // inside one list, parts never overlap each other
                // in overlap mode the parts only avoid each other
                let lo = if p.overlap { place(s, elem_mask, bits, *pw, false) } else { place(s, occ, bits, *pw, false) };
                match lo {
                    Some(lo) => {
                        occ |= range_mask(lo, *pw);
                        elem_mask |= range_mask(lo, *pw);
                        let short = *pw == 1 && s.chance(2, 3);
                        ranges.push(Rng { lo, hi: lo + pw - 1, short });
                    }
                    None => {
                        ok = false;
                        break;
                    }
                }
            }
            if !ok {
                ranges.clear();
                elem_mask = 0;
            } else {
                match s.below(3) {
                    0 => ranges.sort_by_key(|r| r.lo),
                    1 => {
                        ranges.sort_by_key(|r| r.lo);
                        ranges.reverse();
                    }
                    _ => {}
                }
            }
        }
        if ranges.is_empty() {
            // contiguous (also the fallback of a list that did not fit)
            let w_fit = if w <= avail { w } else { 0 };
            if w_fit == 0 {
                // type must shrink: only arbitrary unsigned can
                if let Some(e) = l.enums.last() {
                    if matches!(ty, FieldTy::Enum { .. }) && e.name == format!("E{}", l.enums.len() - 1) {
                        l.enums.pop();
                    }
                }
                if matches!(ty, FieldTy::Nested { .. }) {
                    l.inners.pop();
                }
                continue;
            }
            match place(s, occupied, bits, w, p.overlap) {
                Some(lo) => {
                    ranges.push(if is_bool || (w == 1 && false) { Rng::bit(lo) } else { Rng::new(lo, lo + w - 1) });
                    elem_mask = range_mask(lo, w);
                }
                None => continue,
            }
        }
        let list_syntax = ranges.len() > 1 || (is_list && !is_bool && s.chance(1, 2));
        if list_syntax && ranges.len() == 1 {
            ranges[0].short = w == 1 && s.chance(1, 2);
        }

        // ---- array
        let mut array: Option<ArrayDecl> = None;
        let mut all_mask = elem_mask;
        if want_array {
            let top = 127 - elem_mask.leading_zeros().min(127); // highest bit of element 0
            let low = elem_mask.trailing_zeros();
            let span = top - low + 1;
            let contiguous = ranges.len() == 1;
            // stride candidates
            let min_stride = if contiguous { w } else { 1 };
            let stride = if contiguous {
                match s.below(4) {
                    0 | 1 => w,
                    2 => w + s.range(1, 4),
                    _ => w + s.range(1, 24),
                }
            } else {
                match s.below(3) {
                    0 => span,
                    1 => span + s.range(0, 6),
                    _ => s.range(min_stride, span.max(2)),
                }
            };
            // largest K such that all elements fit and (unless overlap allowed) are free and disjoint
            let mut kmax = 1u32;
            let mut m = elem_mask;
            loop {
                let off = kmax * stride;
                if top + off >= bits {
                    break;
                }
                let em = elem_mask << off;
                if em & m != 0 {
                    break; // elements must never collide with each other
                }
                if !p.overlap && em & occupied != 0 {
                    break;
                }
                m |= em;
                kmax += 1;
                if kmax >= p.max_array.max(2) * 8 {
                    break;
                }
            }
            if kmax >= 2 {
                let kcap = kmax.min(128);
                let count = match s.below(4) {
                    0 => 2,
                    1 => kcap,
                    _ => s.range(2, kcap.min(p.max_array.max(2))),
                };
                all_mask = (0..count).fold(0u128, |a, i| a | (elem_mask << (i * stride)));
                let explicit = !contiguous || stride != w || s.chance(1, 3);
                array = Some(ArrayDecl { count, stride: if explicit { Some(stride) } else { None }, colon: s.chance(1, 6) });
            }
        }
        if !forced_kind_done {
            forced_kind_done = true;
        }
        if !forced_shape_done {
            let got = match (array.is_some(), ranges.len() > 1) {
                (false, false) => 0,
                (true, false) => 1,
                (false, true) => 2,
                (true, true) => 3,
            };
            if got == p.force_shape.unwrap() || (p.force_shape == Some(3) && got == 1 && false) {
                forced_shape_done = true;
            }
        }
        occupied |= all_mask;
        let access = match p.access {
            AccessMode::AllRW => Access::RW,
            AccessMode::AllR => Access::R,
            AccessMode::Mixed => [Access::RW, Access::RW, Access::R, Access::W][s.below(4) as usize],
            AccessMode::MixedWithNone => [Access::RW, Access::R, Access::W, Access::None][s.below(4) as usize],
        };
        let kw_bit = !list_syntax && ranges[0].short && ranges[0].lo == ranges[0].hi;
        // bit(n) may also be used for any one-bit non-bool field
        let (kw_bit, ranges) = if !list_syntax && !kw_bit && w == 1 && s.chance(1, 2) {
            (true, vec![Rng::bit(ranges[0].lo)])
        } else if kw_bit && matches!(ty, FieldTy::Bool) && s.chance(1, 4) {
            // ... and a bool may be declared over the one-bit range bits(n..=n)
            (false, vec![Rng::new(ranges[0].lo, ranges[0].lo)])
        } else {
            (kw_bit, ranges)
        };
        // spelling variants: order of the attribute arguments, field-name prefixes
        let arg_order = if s.chance(1, 3) { s.below(6) as u8 } else { 0 };
        let opt_path = if s.chance(1, 4) { s.range(1, 2) as u8 } else { 0 };
        let zero_pad = s.chance(1, 10);
        let prefix = if s.chance(1, 4) { s.pick(&["r", "rr", "rate", "w", "x_", "ready", "set", "with", "value", "_", "_reserved"]) } else { "f" };
        let name = format!("{}{}", prefix, k);
        l.fields.push(Field { name, kw_bit, list: list_syntax, ranges, array, ty, access, arg_order, opt_path, huge: None, zero_pad });
    }
    if l.fields.is_empty() {
        // always at least one field: a single bit at 0
        l.fields.push(Field {
            name: "f0".into(),
            kw_bit: true,
            list: false,
            ranges: vec![Rng::bit(0)],
            array: None,
            ty: FieldTy::Bool,
            access: match p.access {
                AccessMode::AllR => Access::R,
                _ => Access::RW,
            },
            arg_order: 0,
                opt_path: 0,
                huge: None,
                zero_pad: false,
        });
    }
    if p.ensure_writable && !l.fields.iter().any(|f| f.access.writable()) && p.access != AccessMode::AllR {
        l.fields[0].access = Access::RW;
    }
    if p.ensure_readable && !l.fields.iter().any(|f| f.access.readable()) {
        l.fields[0].access = Access::RW;
    }
    // ---- field names that could collide inside the generated code (all of them legal: no two generated
    // items share a name)
    if s.chance(1, 5) {
        let n = l.fields.len();
        let i = s.below(n as u32) as usize;
        let j = (i + 1) % n;
        let taken = |l: &Layout, nm: &str| l.fields.iter().any(|f| f.name == nm);
        match s.below(5) {
            4 if n >= 2 => {
                // an idiomatic companion name: `x_raw`, `x_mask`, `try_with_x`, `is_x` ... next to `x` (no method
                // of that name is generated for `x`, so the pair is legal)
                let base = l.fields[i].name.strip_prefix("r#").unwrap_or(&l.fields[i].name).to_string();
                let nm = if s.chance(1, 2) { format!("{}{}", base, s.pick(&NAME_SUFFIXES)) } else { format!("{}{}", s.pick(&NAME_PREFIXES), base) };
                if !taken(&l, &nm) {
                    l.fields[j].name = nm;
                }
            }
            0 => {
                // a name the templates use for their own parameters and locals
                let nm = s.pick(&["index", "effective_index", "field_value", "value", "mask", "shift", "result", "one", "build", "temp", "this", "other"]);
                if !taken(&l, nm) {
                    l.fields[i].name = nm.to_string();
                }
            }
            1 if n >= 2 => {
                // two names that differ only in case
                let nm = l.fields[i].name.to_uppercase();
                if nm != l.fields[i].name && !taken(&l, &nm) {
                    l.fields[j].name = nm;
                }
            }
            2 if n >= 2 => {
                // a field called with_x / set_x next to a field x that has no with_x / set_x of its own
                if !l.fields[i].access.writable() {
                    let nm = format!("{}_{}", s.pick(&["with", "set"]), l.fields[i].name);
                    if !taken(&l, &nm) {
                        l.fields[j].name = nm;
                    }
                }
            }
            _ => {
                // raw identifiers (keywords as field names): the getter keeps the `r#`, with_/set_ drop it. Not
                // under `debug`, where the statement does not say whether the printed name carries the prefix.
                let nm = s.pick(&["r#type", "r#fn", "r#match", "r#loop", "r#struct", "r#mod", "r#ref", "r#return", "r#impl", "r#priv"]);
                if !p.debug && !taken(&l, nm) {
                    l.fields[i].name = nm.to_string();
                }
            }
        }
    }
    if p.w_twin {
        let mut twins = Vec::new();
        for f in &l.fields {
            if f.access == Access::W {
                let mut t = f.clone();
                t.name = format!("{}r", f.name);
                t.access = Access::R;
                twins.push(t);
            }
        }
        l.fields.extend(twins);
    }
    if rules::api_name_collision(&l).is_some() {
        // cannot happen by construction; kept as a guard so that a naming choice never costs a false alarm
        for (k, f) in l.fields.iter_mut().enumerate() {
            f.name = format!("f{}", k);
        }
    }
    // ---- default
    let want_default = match p.default {
        DefaultMode::Never => false,
        DefaultMode::Always => true,
        DefaultMode::Maybe => s.chance(1, 2),
    };
    let need = p.need_builder && !rules::builder_expected(&l);
    if want_default || need {
        let m = l.base_mask();
        let v = match s.below(4) {
            0 => 0,
            1 => m,
            2 => s.u128() & m & !rules::writable_mask(&l),
            _ => s.u128() & m,
        };
        l.default = Some(DefaultDecl { value: v, named_const: l.base_native() && s.chance(1, 4), radix: s.pick(&[10u8, 16, 16, 2, 8, 17, 3, 110, 116, 102]), const_name: None });
        l.default_colon = s.chance(1, 4);
    }
    l.debug_first = l.debug && s.chance(1, 2);
    // restricted visibility of the struct (and with it of the builder type), used from the parent module
    l.vis = if s.chance(1, 5) { s.range(1, 2) as u8 } else { 0 };
    l.decoys = if (!l.enums.is_empty() || !l.inners.is_empty()) && s.chance(1, 6) { 1 } else { 0 };
    // the user's own derives on the struct (passed through by the macro; see Layout::derives)
    l.derives = if s.chance(1, 4) { s.range(1, 7) as u8 } else { 0 };
    // invocation context: user items named like companions of the struct, a user module called `core`, the struct
    // item produced by a macro_rules! wrapper
    if s.chance(1, 8) {
        l.decoys |= 2;
    }
    if s.chance(1, 8) {
        l.decoys |= 4;
    }
    if s.chance(1, 8) {
        l.macro_wrap = 1;
    }
    l
}

pub fn field_shape(f: &Field) -> usize {
    match (f.array.is_some(), f.ranges.len() > 1) {
        (false, false) => 0,
        (true, false) => 1,
        (false, true) => 2,
        (true, true) => 3,
    }
}

pub fn field_kind(f: &Field) -> usize {
    match &f.ty {
        FieldTy::Bool => 0,
        FieldTy::UArb { .. } => 1,
        FieldTy::UNat { .. } => 2,
        FieldTy::INat { .. } => 3,
        FieldTy::Enum { option: false, .. } => 4,
        FieldTy::Enum { option: true, .. } => 5,
        FieldTy::Nested { .. } => 6,
    }
}

pub const KIND_NAMES: [&str; 7] = ["bool", "uarb", "unat", "inat", "enum", "optenum", "nested"];
pub const SHAPE_NAMES: [&str; 4] = ["scalar", "array", "list", "listarray"];

pub fn base_class(bits: u32) -> String {
    if is_native_width(bits) {
        format!("native{}", bits)
    } else {
        format!("arb-in-u{}", storage_bits(bits))
    }
}

/// template class of a field: the case split codegen makes, re-derived from the layout
pub fn field_class(l: &Layout, f: &Field) -> String {
    let full = f.ranges.len() == 1 && f.width() == l.storage_bits();
    let top = f.highest_bit() + 1 == l.base_bits;
    format!(
        "{}/{}/{}{}{}",
        base_class(l.base_bits),
        KIND_NAMES[field_kind(f)],
        SHAPE_NAMES[field_shape(f)],
        if full { "/fullwidth" } else { "" },
        if top { "/top" } else { "" }
    )
}
