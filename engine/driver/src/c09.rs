//! C09: a declaration compiles iff every field fits its type and the base.
//! Rule-valid declarations from the generator plus single-step perturbations across the validity
//! boundary; the expected verdict is always recomputed from the final declaration.

use crate::common::*;
use crate::corpus::*;
use crate::gen::*;
use crate::vprops::*;
use model::render::{render_layout, RenderOpts};
use model::rules::{layout_verdict, Verdict};
use model::*;
use serde_json::{json, Value};
use std::collections::BTreeMap;

#[derive(Clone, Debug)]
pub struct Decl {
    pub layout: Layout,
    pub verdict: Verdict,
    /// how it was produced (label only; never used as the expectation)
    pub origin: String,
    /// distance <= 1 from the validity boundary
    pub boundary: bool,
    /// index of the perturbed field
    pub field: Option<usize>,
}

fn shift_field(f: &mut Field, delta: i64) -> bool {
    for r in &f.ranges {
        if (r.lo as i64 + delta) < 0 || (r.hi as i64 + delta) < 0 || (r.hi as i64 + delta) > 300 || (r.lo as i64 + delta) > 300 {
            return false;
        }
    }
    for r in f.ranges.iter_mut() {
        r.lo = (r.lo as i64 + delta) as u32;
        r.hi = (r.hi as i64 + delta) as u32;
    }
    true
}

fn retype_unsigned(l: &Layout, f: &Field, w: u32) -> Option<FieldTy> {
    let _ = l;
    if w == 0 || w > 128 {
        return None;
    }
    match &f.ty {
        FieldTy::Bool | FieldTy::UArb { .. } | FieldTy::UNat { .. } => Some(uty(w)),
        _ => None,
    }
}

/// all single-step perturbations of field `fi`
pub fn perturb(l: &Layout, fi: usize) -> Vec<(String, Layout)> {
    let mut out: Vec<(String, Layout)> = Vec::new();
    let f = &l.fields[fi];
    let w = f.width();
    let mut push = |name: &str, nf: Field, base: Option<u32>| {
        let mut nl = l.clone();
        nl.fields[fi] = nf;
        if let Some(b) = base {
            nl.base_bits = b;
            if let Some(d) = &mut nl.default {
                d.value &= mask(b);
            }
        }
        out.push((name.to_string(), nl));
    };
    // R1: swap lo/hi of one range
    for (k, r) in f.ranges.iter().enumerate() {
        if r.lo < r.hi {
            let mut nf = f.clone();
            nf.ranges[k] = Rng { lo: r.hi, hi: r.lo, short: false };
            push("swap-lo-hi", nf, None);
            break;
        }
    }
    // R1 hidden inside a list: an empty reversed range `k+1..=k`, and a reversed range whose
    // (negative) length is compensated by widening another range
    if f.list && !matches!(f.ty, FieldTy::Bool) {
        let top0 = f.ranges.iter().map(|r| r.hi).max().unwrap();
        let mut nf = f.clone();
        nf.ranges.insert(0, Rng { lo: top0 + 2, hi: top0 + 1, short: false });
        push("list-empty-reversed-range", nf, None);
        let mut nf = f.clone();
        let last = nf.ranges.len() - 1;
        // reversed range a..=b with a - b - 1 = 2, last range widened by 2
        nf.ranges.insert(0, Rng { lo: top0 + 6, hi: top0 + 3, short: false });
        nf.ranges[last + 1].hi += 2;
        nf.ranges[last + 1].short = false;
        push("list-reversed-range-compensated", nf, None);
    } else if !f.list && !matches!(f.ty, FieldTy::Bool) && f.ranges[0].hi >= f.ranges[0].lo {
        // the same through list syntax on a contiguous field
        let r = f.ranges[0].clone();
        let mut nf = f.clone();
        nf.kw_bit = false;
        nf.list = true;
        nf.ranges = vec![Rng { lo: r.hi + 2, hi: r.hi + 1, short: false }, Rng { lo: r.lo, hi: r.hi, short: false }];
        if nf.array.as_ref().map(|a| a.stride.is_none()).unwrap_or(false) {
            let w = nf.width();
            if let Some(a) = nf.array.as_mut() {
                a.stride = Some(w.max(1));
            }
        }
        push("list-empty-reversed-range", nf.clone(), None);
        nf.ranges[0] = Rng { lo: r.hi + 6, hi: r.hi + 3, short: false };
        nf.ranges[1].hi += 2;
        push("list-reversed-range-compensated", nf, None);
    }
    // adversarial literals: numbers chosen so that the macro's own usize arithmetic wraps around when it is
    // built without overflow checks
    if let Some(a) = &f.array {
        if f.ranges.len() == 1 {
            let end = f.ranges[0].hi as u64 + 1;
            // K = 2: stride = 2^64 - end  => (K-1)*stride + end == 2^64 == 0 (mod 2^64)
            let mut nf = f.clone();
            nf.array = Some(ArrayDecl { count: 2, stride: Some(a.stride.unwrap_or(w).max(1)), colon: a.colon });
            nf.huge = Some(Huge { part: "stride".into(), value: 0u64.wrapping_sub(end) });
            push("huge-stride-wraps-k2", nf, None);
            // K = 3: stride = 2^63 => 2*stride == 0 (mod 2^64)
            let mut nf = f.clone();
            nf.array = Some(ArrayDecl { count: 3, stride: Some(a.stride.unwrap_or(w).max(1)), colon: a.colon });
            nf.huge = Some(Huge { part: "stride".into(), value: 1u64 << 63 });
            push("huge-stride-wraps-k3", nf, None);
            // a huge array *length* whose (K-1)*stride is 0 modulo 2^64: K = 2^(64-t) + 1 for a stride of 2^t.
            // Only on fields without setter: for a writable field an accepting macro would try to unroll 2^63
            // builder steps
            let st = a.stride.unwrap_or(w).max(2).next_power_of_two();
            let t = st.trailing_zeros();
            let mut nf = f.clone();
            nf.access = if f.access.readable() { Access::R } else { Access::None };
            nf.array = Some(ArrayDecl { count: 3, stride: Some(st), colon: a.colon });
            nf.huge = Some(Huge { part: "count".into(), value: (1u64 << (64 - t)) + 1 });
            push("huge-count-wraps", nf, None);
        }
    }
    if !matches!(f.ty, FieldTy::Bool) && f.ranges.iter().all(|r| r.lo <= r.hi) {
        // a first range `1..=u64::MAX` has length -1 after wrap-around; the last range is widened by one bit
        let mut nf = f.clone();
        nf.kw_bit = false;
        nf.list = true;
        nf.ranges.insert(0, Rng { lo: 1, hi: 1, short: false });
        let last = nf.ranges.len() - 1;
        nf.ranges[last].hi += 1;
        nf.ranges[last].short = false;
        nf.huge = Some(Huge { part: "hi0".into(), value: u64::MAX });
        if let Some(arr) = nf.array.as_mut() {
            if arr.stride.is_none() {
                arr.stride = Some(w.max(1));
            }
        }
        push("huge-range-end-wraps", nf, None);
    }
    // only ONE item of a list moved above the base (a single-bit item, or the first / last range), the rest stays
    if f.ranges.len() >= 2 {
        for k in [0usize, f.ranges.len() - 1] {
            let r = f.ranges[k].clone();
            if r.lo > r.hi {
                continue;
            }
            let wlen = r.hi - r.lo;
            for t in [l.base_bits, storage_bits(l.base_bits) - 1 + if l.base_native() { 1 } else { 0 }] {
                let mut nf = f.clone();
                nf.ranges[k] = Rng { lo: t, hi: t + wlen, short: r.short && wlen == 0 };
                push("list-one-item-above-base", nf, None);
            }
        }
    }
    // a range that runs over the top of the base, with a second range nested inside it (so the range with the
    // highest start is not the one reaching highest); the type width is the sum of both lengths
    if matches!(f.ty, FieldTy::UArb { .. } | FieldTy::UNat { .. }) && l.base_bits >= 6 && f.array.is_none() {
        let lo = l.base_bits - 4;
        let a = Rng::new(lo, l.base_bits + 1); // 6 bits, two of them above the base
        let b = Rng::new(lo + 1, lo + 2); // nested, 2 bits
        for order in 0..2 {
            let mut nf = f.clone();
            nf.kw_bit = false;
            nf.list = true;
            nf.ranges = if order == 0 { vec![a.clone(), b.clone()] } else { vec![b.clone(), a.clone()] };
            nf.ty = uty(8);
            push("nested-range-inside-overhanging-range", nf, None);
        }
    }
    // R2: range one bit wider / narrower with the same type
    {
        let last = f.ranges.len() - 1;
        let r = &f.ranges[last];
        if !matches!(f.ty, FieldTy::Bool) {
            let mut nf = f.clone();
            nf.ranges[last] = Rng { lo: r.lo, hi: r.hi + 1, short: false };
            nf.kw_bit = false;
            push("range-one-wider", nf, None);
            if r.hi > r.lo {
                let mut nf = f.clone();
                nf.ranges[last] = Rng { lo: r.lo, hi: r.hi - 1, short: false };
                push("range-one-narrower", nf, None);
            }
        } else if !f.list {
            // bool over two bits
            let mut nf = f.clone();
            nf.kw_bit = false;
            nf.ranges[0] = Rng { lo: r.lo, hi: r.lo + 1, short: false };
            push("bool-two-bits", nf, None);
        }
    }
    // R2: type one bit wider / narrower over the same range
    for d in [-1i64, 1] {
        let nw = w as i64 + d;
        if nw >= 1 {
            if let Some(t) = retype_unsigned(l, f, nw as u32) {
                if !(matches!(f.ty, FieldTy::Bool)) {
                    let mut nf = f.clone();
                    nf.ty = t;
                    push(if d < 0 { "type-one-narrower" } else { "type-one-wider" }, nf, None);
                }
            }
        }
    }
    // R2: the range of a native-width field (u8 / i16 / enum or nested bitfield over u8, u16, ...) resized to the
    // neighbouring native width, the type staying what it was
    if f.ranges.len() == 1 && matches!(w, 8 | 16 | 32 | 64) && !matches!(f.ty, FieldTy::Bool) && f.array.is_none() {
        let lo = f.ranges[0].lo;
        for nw in [w * 2, w / 2] {
            if nw < 8 || nw > 128 {
                continue;
            }
            let hi = lo + nw - 1;
            if hi >= 128 {
                continue;
            }
            let mut nf = f.clone();
            nf.kw_bit = false;
            nf.ranges[0] = Rng { lo, hi, short: false };
            let base = if hi >= l.base_bits { Some(hi + 1) } else { None };
            push(if nw > w { "range-to-next-native-width" } else { "range-to-previous-native-width" }, nf, base);
        }
    }
    // native type of the wrong size over the same range (e.g. u8 over 7 or 9 bits comes from the range variants;
    // here: the next native type)
    if let FieldTy::UNat { bits } | FieldTy::INat { bits } = &f.ty {
        let other = if *bits == 128 { 64 } else { bits * 2 };
        let mut nf = f.clone();
        nf.ty = match &f.ty {
            FieldTy::UNat { .. } => FieldTy::UNat { bits: other },
            _ => FieldTy::INat { bits: other },
        };
        push("native-type-wrong-size", nf, None);
    }
    // R3: arrays
    if let Some(a) = &f.array {
        for k in [1u32, 0] {
            let mut nf = f.clone();
            nf.array = Some(ArrayDecl { count: k, ..a.clone() });
            push(if k == 1 { "array-count-1" } else { "array-count-0" }, nf, None);
        }
        if f.ranges.len() == 1 && w >= 2 {
            let mut nf = f.clone();
            nf.array = Some(ArrayDecl { stride: Some(w - 1), ..a.clone() });
            push("stride-below-width", nf, None);
        }
        if f.ranges.len() == 1 {
            let mut nf = f.clone();
            nf.array = Some(ArrayDecl { stride: Some(0), ..a.clone() });
            push("stride-zero", nf, None);
        }
        if f.ranges.len() > 1 && a.stride.is_some() {
            let mut nf = f.clone();
            nf.array = Some(ArrayDecl { stride: None, ..a.clone() });
            push("list-array-stride-removed", nf, None);
        }
        // last element crosses the top by one bit: raise the count as far as needed
        let st = f.stride();
        if st > 0 {
            let top0 = f.ranges.iter().map(|r| r.hi).max().unwrap();
            if l.base_bits > top0 {
                let k_fit = (l.base_bits - 1 - top0) / st + 1;
                let mut nf = f.clone();
                nf.array = Some(ArrayDecl { count: k_fit + 1, ..a.clone() });
                push("array-one-element-too-many", nf.clone(), None);
                // the same declaration on a base wide enough again
                let need = top0 + k_fit * st + 1;
                if need <= 128 {
                    push("array-one-more-on-wider-base", nf, Some(need));
                }
                let mut nf = f.clone();
                nf.array = Some(ArrayDecl { count: k_fit.max(2), ..a.clone() });
                push("array-exactly-fits", nf, None);
            }
        }
    }
    // R4: moved so that the highest bit is exactly base_bits (just outside), into the storage headroom,
    // just beyond the storage, and far outside
    let top = f.highest_bit();
    let targets: Vec<(&str, u32)> = vec![
        ("move-top-to-base-width", l.base_bits),
        ("move-top-into-headroom", storage_bits(l.base_bits) - 1),
        ("move-top-to-storage-width", storage_bits(l.base_bits)),
        ("move-top-beyond-storage", storage_bits(l.base_bits) + 7),
        ("move-top-to-last-valid-bit", l.base_bits - 1),
        ("move-far-outside", 200),
    ];
    for (name, t) in targets {
        let delta = t as i64 - top as i64;
        if delta == 0 && name != "move-top-to-last-valid-bit" {
            continue;
        }
        let mut nf = f.clone();
        if shift_field(&mut nf, delta) {
            push(name, nf.clone(), None);
            if name == "move-top-to-base-width" && l.base_bits < 128 {
                // declared width one larger so that it fits again
                push("move-top-to-base-width-on-wider-base", nf, Some(l.base_bits + 1));
            }
        }
    }
    out
}

fn decl_class(d: &Decl) -> String {
    match &d.verdict {
        Verdict::Valid => "valid".to_string(),
        Verdict::Invalid(r) => r.join("+"),
        Verdict::Unspecified(_) => "unspecified".to_string(),
    }
}

pub fn corpus_c09(tier: Tier, seed: u64) -> Vec<Decl> {
    let mut out: Vec<Decl> = Vec::new();
    let mut bases: Vec<Layout> = Vec::new();
    // seeds of perturbation: random rule-valid layouts of every shape and kind, and systematic ones
    let n = tier.pick(500usize, 6000usize);
    let mut p = Profile::general();
    p.kinds = [3, 6, 4, 2, 1, 1, 1];
    p.shapes = [5, 3, 2, 2];
    p.max_fields = 3;
    // fields without any access specifier obey the same rules as accessible ones
    p.access = AccessMode::MixedWithNone;
    for w in sample_choices(seed, 9, n, 320) {
        bases.push(build_layout(&p, &w));
    }
    p.base = BaseMode::ArbOnly;
    for w in sample_choices(seed, 10, n / 2, 320) {
        bases.push(build_layout(&p, &w));
    }
    for (k, l) in sys_arrays(Tier::Quick).into_iter().enumerate() {
        if k % tier.pick(9, 2) == 0 {
            bases.push(l);
        }
    }
    for (k, l) in sys_lists(Tier::Quick).into_iter().enumerate() {
        if k % tier.pick(9, 2) == 0 {
            bases.push(l);
        }
    }
    for (k, l) in sys_scalars(Tier::Quick, Access::RW).into_iter().enumerate() {
        if k % tier.pick(6, 1) == 0 {
            bases.push(l);
        }
    }
    // several fields of the same custom type in one declaration, in every combination of access specifiers:
    // the second (or first) of them perturbed in width, all R2 perturbations
    let n_random_bases = bases.len();
    let mut pair_bases: Vec<Layout> = Vec::new();
    for w in [1u32, 2, 3, 8, 16] {
        for (a0, a1) in [(Access::RW, Access::W), (Access::W, Access::W), (Access::W, Access::None), (Access::None, Access::W), (Access::None, Access::None), (Access::R, Access::None), (Access::W, Access::RW), (Access::None, Access::R)] {
            for nested in [false, true] {
                let ty = if nested { FieldTy::Nested { idx: 0 } } else { FieldTy::Enum { idx: 0, option: w > 3 } };
                let mut l = lay(64, vec![fld("a", 0, w, ty.clone(), a0), fld("b", 24, w, ty.clone(), a1), fld("c", 48, 4, uty(4), Access::RW)]);
                if nested {
                    l.inners.push(Layout { name: "I0".into(), ..lay(w, vec![fld("g0", 0, 1, FieldTy::Bool, Access::RW)]) });
                } else {
                    l.enums.push(small_enum("E0", w, w <= 3));
                }
                pair_bases.push(l);
            }
        }
    }
    for l in &pair_bases {
        let v = layout_verdict(l);
        if !v.is_valid() {
            inconclusive(&format!("generator bug: pair layout not valid: {:?}\n{}", v, render_layout(l, &RenderOpts::default())));
        }
        out.push(Decl { layout: l.clone(), verdict: v, origin: "generated".into(), boundary: false, field: None });
        for fi in [0usize, 1] {
            for (name, nl) in perturb(l, fi) {
                if !(name.starts_with("range-one") || name.starts_with("range-to")) {
                    continue;
                }
                let v = layout_verdict(&nl);
                out.push(Decl { layout: nl, verdict: v, origin: format!("same-type-pair/{}", name), boundary: true, field: Some(fi) });
            }
        }
    }
    // several array fields in one declaration (contiguous and list elements, explicit and implicit strides):
    // each of them perturbed in its array attributes — what one field declares must not leak into the next
    let mut array_bases: Vec<Layout> = sys_multi_arrays();
    for b in [32u32, 64, 24] {
        let la = |name: &str, rs: Vec<(u32, u32)>, k: u32, st: u32| Field {
            name: name.into(),
            kw_bit: false,
            list: true,
            ranges: rs.iter().map(|(lo, hi)| Rng { lo: *lo, hi: *hi, short: false }).collect(),
            array: Some(ArrayDecl { count: k, stride: Some(st), colon: false }),
            ty: uty(rs.iter().map(|(lo, hi)| hi - lo + 1).sum()),
            access: Access::RW,
            arg_order: 0,
            opt_path: 0,
            huge: None,
            zero_pad: false,
        };
        // two list arrays, strides 4 and 2; a list array before / after a contiguous array without stride
        array_bases.push(lay(b, vec![la("p", vec![(0, 0), (2, 2)], 2, 4), la("q", vec![(8, 8), (12, 12)], 2, 2)]));
        let mut c = fld("c", 16, 2, uty(2), Access::RW);
        c.array = Some(ArrayDecl { count: 2, stride: None, colon: false });
        array_bases.push(lay(b, vec![la("p", vec![(0, 0), (2, 2)], 2, 4), c.clone()]));
        array_bases.push(lay(b, vec![c, la("p", vec![(0, 0), (2, 2)], 2, 4), la("q", vec![(8, 8), (12, 12)], 2, 2)]));
    }
    for l in &array_bases {
        let v = layout_verdict(l);
        if !v.is_valid() {
            inconclusive(&format!("generator bug: multi-array layout not valid: {:?}\n{}", v, render_layout(l, &RenderOpts::default())));
        }
        out.push(Decl { layout: l.clone(), verdict: v, origin: "generated".into(), boundary: true, field: None });
        for fi in 0..l.fields.len() {
            if l.fields[fi].array.is_none() {
                continue;
            }
            for (name, nl) in perturb(l, fi) {
                if !(name.starts_with("list-array") || name.starts_with("stride") || name.starts_with("array-") || name.starts_with("huge")) {
                    continue;
                }
                let v = layout_verdict(&nl);
                out.push(Decl { layout: nl, verdict: v, origin: format!("several-arrays/{}", name), boundary: true, field: Some(fi) });
            }
        }
    }
    let _ = n_random_bases;
    let words = sample_choices(seed, 11, bases.len().max(1), 64);
    for (bi, l) in bases.iter().enumerate() {
        let v = layout_verdict(l);
        if !v.is_valid() {
            inconclusive(&format!("generator bug: seed layout not valid: {:?}\n{}", v, render_layout(l, &RenderOpts::default())));
        }
        let touches_limit = l.fields.iter().any(|f| {
            f.highest_bit() + 1 == l.base_bits || f.array.as_ref().map(|a| a.count == 2 || a.stride == Some(f.width())).unwrap_or(false)
        });
        out.push(Decl { layout: l.clone(), verdict: v, origin: "generated".into(), boundary: touches_limit, field: None });
        // perturb one field (chosen by the choice sequence), all applicable single steps
        let mut src = Src::new(&words[bi % words.len()]);
        let fi = src.below(l.fields.len() as u32) as usize;
        // every third seed layout: the perturbed field carries no access specifier (or is read-only)
        let mut l = l.clone();
        if bi % 3 == 1 {
            l.fields[fi].access = if bi % 2 == 0 { Access::None } else { Access::R };
        }
        let l = &l;
        let mut ps = perturb(l, fi);
        // quick tier: a subset of the perturbations of each layout
        let keep = tier.pick(6usize, 64usize);
        while ps.len() > keep {
            let k = src.below(ps.len() as u32) as usize;
            ps.remove(k);
        }
        for (name, nl) in ps {
            let v = layout_verdict(&nl);
            // declarations the statement leaves open are kept too: whatever the rule says about them, it says
            // the same to a macro built in either profile
            out.push(Decl { layout: nl, verdict: v, origin: name, boundary: true, field: Some(fi) });
        }
    }
    // large declarations: one field per bit / nibble of the base (the first, a middle and the last field
    // perturbed), range lists with 16-64 entries (the list field perturbed), deep nesting
    {
        let mut large: Vec<(Layout, Vec<usize>)> = Vec::new();
        for (k, l) in sys_many_fields(Access::RW).into_iter().enumerate() {
            if k % tier.pick(2, 1) != 0 {
                continue;
            }
            let n = l.fields.len();
            large.push((l, vec![0, n * 2 / 3, n - 1]));
        }
        for (k, l) in sys_long_lists().into_iter().enumerate() {
            if k % tier.pick(3, 1) != 0 {
                continue;
            }
            let fi = l.fields.iter().position(|f| f.list).unwrap_or(0);
            large.push((l, vec![fi]));
        }
        for l in sys_deep_nesting(false) {
            large.push((l, vec![0]));
        }
        // companion names (`x_raw` next to `x`, ...): every such declaration must be accepted as it stands
        for l in sys_name_pairs() {
            large.push((l, vec![]));
        }
        for (l, fis) in large {
            let v = layout_verdict(&l);
            if !v.is_valid() {
                inconclusive(&format!("generator bug: large layout not valid: {:?}\n{}", v, render_layout(&l, &RenderOpts::default())));
            }
            out.push(Decl { layout: l.clone(), verdict: v, origin: "generated".into(), boundary: false, field: None });
            for fi in fis {
                for (name, nl) in perturb(&l, fi) {
                    let v = layout_verdict(&nl);
                    out.push(Decl { layout: nl, verdict: v, origin: format!("large/{}", name), boundary: true, field: Some(fi) });
                }
            }
        }
    }
    // open declarations, systematically: lists naming a bit twice whose lengths add up to the type width (the
    // macro's reading), below / at / above the width of the base
    for b in [8u32, 16, 32, 64, 128, 12, 24, 40, 100] {
        let mk = |rs: Vec<(u32, u32)>, arr: Option<ArrayDecl>| {
            let w: u32 = rs.iter().map(|(lo, hi)| hi - lo + 1).sum();
            Field {
                name: "dup".into(),
                kw_bit: false,
                list: true,
                ranges: rs.iter().map(|(lo, hi)| Rng { lo: *lo, hi: *hi, short: false }).collect(),
                array: arr,
                ty: uty(w),
                access: Access::RW,
                arg_order: 0,
                opt_path: 0,
                huge: None,
                zero_pad: false,
            }
        };
        let h = b / 2;
        let mut fs = vec![
            mk(vec![(0, h - 1), (0, h - 1)], None),
            mk(vec![(0, b - 1 - h / 2), (h / 2, b - 1)], None),
            mk(vec![(0, 3), (2, 5)], None),
            mk(vec![(b - 4, b - 1), (b - 2, b - 1)], None),
            mk(vec![(0, 1), (1, 2)], Some(ArrayDecl { count: 2, stride: Some(4), colon: false })),
        ];
        if b <= 64 {
            fs.push(mk(vec![(0, b - 1), (0, b - 1)], None));
            fs.push(mk(vec![(0, b - 1), (h, b - 1)], None));
        }
        for f in fs {
            if f.width() > 128 {
                continue;
            }
            let l = lay(b, vec![f]);
            let v = layout_verdict(&l);
            out.push(Decl { layout: l, verdict: v, origin: "open-duplicate-bits".into(), boundary: true, field: Some(0) });
        }
    }
    // de-duplicate by source text
    let ro = RenderOpts::default();
    let mut seen = std::collections::HashSet::new();
    out.retain(|d| seen.insert(render_layout(&d.layout, &ro)));
    out
}

pub fn run(rc: &RunCtx) -> Outcome {
    let decls = corpus_c09(rc.tier, rc.seed);
    let ro = RenderOpts::default();
    let items: Vec<(usize, String)> = decls.iter().enumerate().map(|(i, d)| (i, render_layout(&d.layout, &ro))).collect();
    let mut violations = Vec::new();
    let mut disagreements_checked = 0u64;
    let mut evaluations = 0u64;
    let mut per_origin: BTreeMap<String, u64> = BTreeMap::new();
    let mut per_class: BTreeMap<String, u64> = BTreeMap::new();
    for d in &decls {
        *per_origin.entry(d.origin.clone()).or_insert(0) += 1;
        *per_class.entry(decl_class(d)).or_insert(0) += 1;
    }
    let mut observed: Vec<BTreeMap<usize, Vec<String>>> = Vec::new();
    let profiles = ["dev", "release-asdep"];
    for mp in profiles {
        observed.push(check_decls(rc, "decl", &items, mp));
    }
    let mut confirmed_per_sig: BTreeMap<String, u32> = BTreeMap::new();
    let mut unconfirmed_duplicates = 0u64;
    let mut open_agree = 0u64;
    for (pi, mp) in profiles.iter().enumerate() {
        for (i, d) in decls.iter().enumerate() {
            evaluations += 1;
            let errs = observed[pi].get(&i).cloned().unwrap_or_default();
            let accepted = errs.is_empty();
            if matches!(d.verdict, Verdict::Unspecified(_)) {
                // open declaration: the only expectation is that both builds of the macro agree
                if pi == 0 {
                    continue;
                }
                let accepted_dev = observed[0].get(&i).map(|e| e.is_empty()).unwrap_or(true);
                if accepted_dev == accepted {
                    open_agree += 1;
                    continue;
                }
                let sig = format!("profile-dependent-acceptance/{}/{}", base_class(d.layout.base_bits), d.origin);
                let n = confirmed_per_sig.entry(sig.clone()).or_insert(0);
                if *n >= 2 {
                    unconfirmed_duplicates += 1;
                    continue;
                }
                disagreements_checked += 1;
                let iso_dev = check_isolated(rc, &items[i].1, None, "dev");
                let iso_rel = check_isolated(rc, &items[i].1, None, "release");
                if iso_dev.is_empty() == iso_rel.is_empty() {
                    continue;
                }
                *n += 1;
                violations.push(Violation {
                    sig,
                    summary: format!(
                        "C09: acceptance depends on the profile the macro is built in: dev {}, release {}: {}\n{}",
                        if iso_dev.is_empty() { "compiles" } else { "is rejected" },
                        if iso_rel.is_empty() { "compiles" } else { "is rejected" },
                        iso_dev.first().or(iso_rel.first()).cloned().unwrap_or_default(),
                        items[i].1
                    ),
                    replay: json!({"kind": "profile-consistency", "source": items[i].1, "layout": d.layout, "verdict": format!("{:?}", d.verdict), "origin": d.origin, "observed_errors_dev": iso_dev, "observed_errors_release": iso_rel}),
                });
                continue;
            }
            let want_accept = d.verdict.is_valid();
            if accepted == want_accept {
                continue;
            }
            let shape = match d.field {
                Some(fi) if fi < d.layout.fields.len() => SHAPE_NAMES[field_shape(&d.layout.fields[fi])],
                _ => "any",
            };
            let sig = if want_accept {
                format!("reject-valid/{}/{}", base_class(d.layout.base_bits), d.origin)
            } else {
                format!("accept-invalid/{}/{}/macro-{}", decl_class(d), shape, mp)
            };
            // confirm in a fresh single-declaration crate (at most 2 per signature; the rest are counted)
            let n = confirmed_per_sig.entry(sig.clone()).or_insert(0);
            if *n >= 2 {
                unconfirmed_duplicates += 1;
                continue;
            }
            disagreements_checked += 1;
            let iso = check_isolated_contexts(rc, &items[i].1, None, mp, &|m: &[String]| m.is_empty() != want_accept);
            if iso.is_empty() == want_accept {
                continue;
            }
            *n += 1;
            violations.push(Violation {
                sig,
                summary: format!(
                    "C09 (macro built in {} profile): declaration is {:?} but {}: {}\n{}",
                    mp,
                    d.verdict,
                    if accepted { "compiles" } else { "is rejected" },
                    iso.first().cloned().unwrap_or_default(),
                    items[i].1
                ),
                replay: json!({"kind": "verdict", "source": items[i].1, "layout": d.layout, "expect_accept": want_accept, "macro_profile": mp, "verdict": format!("{:?}", d.verdict), "origin": d.origin, "observed_errors": iso}),
            });
        }
    }
    // program-level shrinking of up to three violation groups: structural reduction of the declaration,
    // keeping it on the same side of the rule predicate and keeping the disagreement (isolated re-check)
    if std::env::var("BBV_NO_SHRINK").is_err() {
        let mut done = std::collections::BTreeSet::new();
        for v in violations.iter_mut() {
            if done.len() >= 3 || !done.insert(v.sig.clone()) {
                continue;
            }
            if v.replay["kind"] == "profile-consistency" {
                continue;
            }
            let layout: Layout = match serde_json::from_value(v.replay["layout"].clone()) {
                Ok(l) => l,
                Err(_) => continue,
            };
            let want_accept = v.replay["expect_accept"].as_bool().unwrap_or(false);
            let mp = v.replay["macro_profile"].as_str().unwrap_or("dev").to_string();
            let (small, steps, log) = crate::shrink::reduce(&layout, 30, |cand| {
                if layout_verdict(cand).is_valid() != want_accept || matches!(layout_verdict(cand), Verdict::Unspecified(_)) {
                    return false;
                }
                let src = render_layout(cand, &ro);
                check_isolated(rc, &src, None, &mp).is_empty() != want_accept
            });
            if steps > 0 && !log.is_empty() {
                let src = render_layout(&small, &ro);
                v.replay["original_source"] = v.replay["source"].clone();
                v.replay["source"] = json!(src);
                v.replay["layout"] = json!(small);
                v.replay["verdict"] = json!(format!("{:?}", layout_verdict(&small)));
                v.replay["program_shrinking"] = json!({"candidates_compiled": steps, "accepted_steps": log});
                v.summary = format!("{}\nreduced to:\n{}", v.summary.split('\n').next().unwrap_or(""), src);
            }
        }
    }
    let boundary = decls.iter().filter(|d| d.boundary).count() as u64;
    let mut samples: Vec<Value> = Vec::new();
    for d in decls.iter().filter(|d| d.verdict.is_invalid()).take(3) {
        samples.push(json!({"declaration": render_layout(&d.layout, &ro), "expected": format!("{:?}", d.verdict), "origin": d.origin}));
    }
    for d in decls.iter().filter(|d| d.verdict.is_valid() && d.origin != "generated").take(2) {
        samples.push(json!({"declaration": render_layout(&d.layout, &ro), "expected": "Valid", "origin": d.origin}));
    }
    let coverage = json!({
        "programs": decls.len(),
        "evaluations": evaluations,
        "distinct_nontrivial": boundary,
        "rule": "cases = declarations (rule-valid ones from the generator and single-step perturbations of one field: reversed range, type/range one bit off, bool over two bits, K -> 1/0, stride below width, stride 0, stride removed from a list array, reversed ranges hidden in a list (empty, or compensated by a wider range), literals near u64::MAX that make the macro's own arithmetic wrap, field moved so that its top bit is base width / storage headroom / storage width / beyond, one array element too many, and the same on a base one bit wider), each checked with the macro built in the dev and in the release profile. Expected verdict recomputed from the final declaration by the rule transcription (R1-R4); for declarations the statement leaves open (a list naming a bit twice, stride 0 on a list array, ...) the only expectation is the same outcome from both builds of the macro. Non-trivial: at distance <= 1 from the validity boundary (a perturbed declaration, or a valid one touching a limit: top bit, stride = width, K = 2); distinct by declaration text",
        "samples": samples,
        "exhaustive": false,
        "disagreements_checked": disagreements_checked,
        "further_disagreements_with_an_already_confirmed_signature": unconfirmed_duplicates,
        "expected_valid": decls.iter().filter(|d| d.verdict.is_valid()).count(),
        "expected_invalid": decls.iter().filter(|d| d.verdict.is_invalid()).count(),
        "open_declarations": decls.iter().filter(|d| matches!(d.verdict, Verdict::Unspecified(_))).count(),
        "open_declarations_with_the_same_outcome_in_both_macro_profiles": open_agree,
        "by_origin": per_origin,
        "by_expected_rule": per_class,
        "macro_profiles": profiles,
    });
    Outcome {
        violations,
        coverage,
        assumptions: vec![
            "rustc's JSON diagnostics are attributed to declarations by file; a disagreement is re-confirmed in a single-declaration crate before it is reported".into(),
            "the rule transcription model::rules::layout_verdict is the oracle; declarations the statement leaves open (a list naming a bit twice, stride 0 on a list array, Option<> not matching the enum's exhaustiveness, undocumented spellings such as bit(a..=b)) are only compared between the two builds of the macro".into(),
        ],
    }
}
