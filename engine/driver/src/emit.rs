//! Emitters: layouts -> behaviour crates (B), verdict crates (V).

use model::render::*;
use model::*;
use std::fmt::Write as _;
use std::path::{Path, PathBuf};

#[derive(Clone, Debug)]
pub struct EmitOpts {
    pub getters: bool,
    pub withs: bool,
    pub sets: bool,
    pub rewrap: bool,
    pub builder: bool,
    pub defaults: bool,
    pub zero: bool,
    pub debug: bool,
    pub size_align: bool,
    /// put #[derive(PartialEq, Eq)] on the generated struct and offer eq_rewrap()
    pub derive_eq: bool,
}

impl EmitOpts {
    pub fn none() -> EmitOpts {
        EmitOpts { getters: false, withs: false, sets: false, rewrap: false, builder: false, defaults: false, zero: false, debug: false, size_align: false, derive_eq: false }
    }
    pub fn accessors() -> EmitOpts {
        EmitOpts { getters: true, withs: true, sets: true, rewrap: true, ..EmitOpts::none() }
    }
}

pub const MOD_ALLOW: &str = "#![allow(dead_code, unused_imports, unused_variables, unused_mut, deprecated, unreachable_code, unreachable_patterns, non_camel_case_types, non_upper_case_globals, unused_parens, clippy::all)]";

fn native(bits: u32) -> String {
    format!("u{}", storage_bits(bits))
}

/// expression converting `x: u128` into the base type value of width `bits`
pub fn to_base(bits: u32, x: &str) -> String {
    if is_native_width(bits) {
        format!("({} as u{})", x, bits)
    } else {
        format!("arbitrary_int::UInt::<{}, {}>::new({} as {})", native(bits), bits, x, native(bits))
    }
}

/// expression converting a base typed value into u128
pub fn from_base(bits: u32, x: &str) -> String {
    if is_native_width(bits) {
        format!("({} as u128)", x)
    } else {
        format!("({}.value() as u128)", x)
    }
}

/// `match` arms variant -> discriminant literal for enabled variants
fn enum_to_disc_fn(e: &EnumDecl) -> String {
    let mut s = String::new();
    writeln!(s, "pub const fn disc_{}(v: {}) -> u128 {{ match v {{", e.name.to_lowercase(), e.name).unwrap();
    for v in &e.variants {
        if v.cfg == Cfg::Never {
            continue;
        }
        if let Disc::Lit { value, .. } = v.disc {
            writeln!(s, "    {}::{} => {:#x}u128,", e.name, v.name, value).unwrap();
        }
    }
    writeln!(s, "}} }}").unwrap();
    writeln!(s, "pub fn variant_{}(d: u128) -> {} {{ match d {{", e.name.to_lowercase(), e.name).unwrap();
    for v in &e.variants {
        if v.cfg == Cfg::Never {
            continue;
        }
        if let Disc::Lit { value, .. } = v.disc {
            writeln!(s, "    {:#x}u128 => {}::{},", value, e.name, v.name).unwrap();
        }
    }
    writeln!(s, "    _ => panic!(\"ADAPTER-BUG: {{:#x}} is not a discriminant of {}\", d),", e.name).unwrap();
    writeln!(s, "}} }}").unwrap();
    s
}

/// getter result expression -> Val
fn get_conv(l: &Layout, ty: &FieldTy, x: &str) -> String {
    match ty {
        FieldTy::Bool => format!("Val::Bits({} as u128)", x),
        FieldTy::UArb { .. } => format!("Val::Bits({}.value() as u128)", x),
        FieldTy::UNat { .. } => format!("Val::Bits({} as u128)", x),
        FieldTy::INat { .. } => format!("Val::Signed({} as i128)", x),
        FieldTy::Enum { idx, option } => {
            let e = &l.enums[*idx];
            let d = format!("disc_{}", e.name.to_lowercase());
            if *option {
                format!("match {} {{ Ok(v) => Val::Ok({}(v)), Err(x) => Val::Err(x as u128) }}", x, d)
            } else {
                format!("Val::Bits({}({}))", d, x)
            }
        }
        FieldTy::Nested { idx } => {
            let i = &l.inners[*idx];
            format!("Val::Bits({})", from_base(i.base_bits, &format!("{}.raw_value()", x)))
        }
    }
}

/// `v: u128` -> setter argument
pub fn set_conv(l: &Layout, ty: &FieldTy, v: &str) -> String {
    match ty {
        FieldTy::Bool => format!("({} != 0)", v),
        FieldTy::UArb { bits, .. } => to_base(*bits, v),
        FieldTy::UNat { bits } => format!("({} as u{})", v, bits),
        FieldTy::INat { bits } => format!("(({} as u{}) as i{})", v, bits, bits),
        FieldTy::Enum { idx, .. } => format!("variant_{}({})", l.enums[*idx].name.to_lowercase(), v),
        FieldTy::Nested { idx } => {
            let i = &l.inners[*idx];
            format!("{}::new_with_raw_value({})", i.name, to_base(i.base_bits, v))
        }
    }
}

/// model Val -> value of the getter's type (for the derive(Debug) twin)
fn val_conv(l: &Layout, ty: &FieldTy, v: &str) -> String {
    match ty {
        FieldTy::INat { bits } => format!("match {} {{ Val::Signed(s) => *s as i{}, _ => panic!(\"ADAPTER-BUG\") }}", v, bits),
        FieldTy::Enum { idx, option: true } => {
            let e = &l.enums[*idx];
            format!(
                "match {} {{ Val::Ok(d) => Ok(variant_{}(*d)), Val::Err(x) => Err(*x as {}), _ => panic!(\"ADAPTER-BUG\") }}",
                v,
                e.name.to_lowercase(),
                native(e.bits)
            )
        }
        _ => format!("match {} {{ Val::Bits(b) => {}, _ => panic!(\"ADAPTER-BUG\") }}", v, set_conv(l, ty, "(*b)")),
    }
}

fn getter_ty(l: &Layout, ty: &FieldTy) -> String {
    match ty {
        FieldTy::Enum { idx, option: true } => format!("Result<{}, {}>", l.enums[*idx].name, native(l.enums[*idx].bits)),
        _ => ty_text(l, ty),
    }
}

pub fn method_name(f: &Field) -> String {
    f.name.strip_prefix("r#").unwrap_or(&f.name).to_string()
}

/// One module file for a layout of a behaviour crate.
pub fn emit_b_module(id: usize, l: &Layout, o: &EmitOpts, consts: Option<&str>) -> String {
    let mut s = String::new();
    writeln!(s, "{}", MOD_ALLOW).unwrap();
    writeln!(s, "use arbitrary_int::*;\nuse rt::{{Obj, Val}};\n").unwrap();
    let ro = RenderOpts::default();
    // the declaration lives in its own module, so that only its public API is reachable from the adapter;
    // every third module carries doc comments on all items, fields and variants (they are passed through
    // to the generated accessors and must not change anything)
    let ro_decl = RenderOpts { docs: id % 3 == 1, struct_derives: if o.derive_eq { "#[derive(PartialEq, Eq)]".to_string() } else { String::new() }, ..RenderOpts::default() };
    writeln!(s, "pub mod decl {{\n    #![allow(dead_code, unused_imports, non_camel_case_types, non_upper_case_globals)]\n    use arbitrary_int::*;").unwrap();
    s.push_str(&render_layout(l, &ro_decl));
    writeln!(s, "}}\nuse decl::*;\n").unwrap();
    for e in &l.enums {
        s.push_str(&enum_to_disc_fn(e));
    }
    writeln!(s, "pub(crate) struct A(pub(crate) S);").unwrap();
    writeln!(s, "impl Obj for A {{").unwrap();
    writeln!(s, "    fn raw(&self) -> u128 {{ let r: u{} = self.0.raw_value(); {} }}", l.base_bits, from_base(l.base_bits, "r")).unwrap();
    // get
    writeln!(s, "    fn get(&self, f: usize, i: usize) -> Val {{ match f {{").unwrap();
    if o.getters {
        for (k, f) in l.fields.iter().enumerate() {
            if !f.access.readable() {
                continue;
            }
            let call = if f.is_array() { format!("self.0.{}(i)", f.name) } else { format!("self.0.{}()", f.name) };
            // the getter's result is bound to the declared field type first ("presented as the declared field
            // type"): a getter returning a wider or differently signed integer does not compile here
            writeln!(s, "        {} => {{ let g: {} = {}; {} }}", k, getter_ty(l, &f.ty), call, get_conv(l, &f.ty, "g")).unwrap();
        }
    }
    writeln!(s, "        _ => panic!(\"ADAPTER-BUG: no getter for field {{}}\", f),").unwrap();
    writeln!(s, "    }} }}").unwrap();
    // with
    writeln!(s, "    fn with(&self, f: usize, i: usize, v: u128) -> Box<dyn Obj> {{ match f {{").unwrap();
    if o.withs {
        for (k, f) in l.fields.iter().enumerate() {
            if !f.access.writable() {
                continue;
            }
            let arg = set_conv(l, &f.ty, "v");
            let m = method_name(f);
            let call = if f.is_array() { format!("self.0.with_{}(i, arg)", m) } else { format!("self.0.with_{}(arg)", m) };
            writeln!(s, "        {} => {{ let arg = {}; Box::new(A({})) }}", k, arg, call).unwrap();
        }
    }
    writeln!(s, "        _ => panic!(\"ADAPTER-BUG: no with_ for field {{}}\", f),").unwrap();
    writeln!(s, "    }} }}").unwrap();
    // set
    writeln!(s, "    fn set(&mut self, f: usize, i: usize, v: u128) {{ match f {{").unwrap();
    if o.sets {
        for (k, f) in l.fields.iter().enumerate() {
            if !f.access.writable() {
                continue;
            }
            let arg = set_conv(l, &f.ty, "v");
            let m = method_name(f);
            let call = if f.is_array() { format!("self.0.set_{}(i, arg)", m) } else { format!("self.0.set_{}(arg)", m) };
            writeln!(s, "        {} => {{ let arg = {}; {}; }}", k, arg, call).unwrap();
        }
    }
    writeln!(s, "        _ => panic!(\"ADAPTER-BUG: no set_ for field {{}}\", f),").unwrap();
    writeln!(s, "    }} }}").unwrap();
    writeln!(s, "    fn rewrap(&self) -> Box<dyn Obj> {{ Box::new(A(S::new_with_raw_value(self.0.raw_value()))) }}").unwrap();
    if o.debug && l.debug {
        writeln!(s, "    fn debug(&self, alternate: bool) -> String {{ if alternate {{ format!(\"{{:#?}}\", self.0) }} else {{ format!(\"{{:?}}\", self.0) }} }}").unwrap();
    } else {
        writeln!(s, "    fn debug(&self, alternate: bool) -> String {{ panic!(\"ADAPTER-BUG: no Debug\") }}").unwrap();
    }
    if o.derive_eq {
        writeln!(s, "    fn eq_rewrap(&self) -> Option<bool> {{ Some(self.0 == S::new_with_raw_value(self.0.raw_value())) }}").unwrap();
    }
    writeln!(s, "}}\n").unwrap();

    writeln!(s, "fn from_raw(r: u128) -> Box<dyn Obj> {{ Box::new(A(S::new_with_raw_value({}))) }}", to_base(l.base_bits, "r")).unwrap();
    if o.zero {
        writeln!(s, "fn zero() -> Box<dyn Obj> {{ Box::new(A(S::ZERO)) }}").unwrap();
    }
    let has_defaults = o.defaults && l.default.is_some();
    if has_defaults {
        writeln!(
            s,
            "fn defaults() -> Vec<Box<dyn Obj>> {{ vec![Box::new(A(S::DEFAULT)), Box::new(A(<S as Default>::default())), Box::new(A(S::new()))] }}"
        )
        .unwrap();
    }
    let has_builder = o.builder && rules::builder_expected(l);
    if has_builder {
        writeln!(s, "fn build(args: &[Vec<u128>]) -> Box<dyn Obj> {{").unwrap();
        writeln!(s, "    let x = S::builder()").unwrap();
        let mut n = 0;
        for f in &l.fields {
            if !f.access.writable() {
                continue;
            }
            let m = method_name(f);
            if f.is_array() {
                writeln!(s, "        .with_{}(::core::array::from_fn(|k| {{ let v = args[{}][k]; {} }}))", m, n, set_conv(l, &f.ty, "v")).unwrap();
            } else {
                writeln!(s, "        .with_{}({{ let v = args[{}][0]; {} }})", m, n, set_conv(l, &f.ty, "v")).unwrap();
            }
            n += 1;
        }
        writeln!(s, "        .build();\n    Box::new(A(x))\n}}").unwrap();
    }
    let has_twin = o.debug && l.debug;
    if has_twin {
        writeln!(s, "mod twin {{\n    use super::*;\n    #[derive(Debug)]\n    pub struct S {{").unwrap();
        for f in &l.fields {
            writeln!(s, "        pub {}: {},", f.name, getter_ty(l, &f.ty)).unwrap();
        }
        writeln!(s, "    }}\n}}").unwrap();
        writeln!(s, "fn twin_debug(vals: &[Val], alternate: bool) -> String {{").unwrap();
        writeln!(s, "    let t = twin::S {{").unwrap();
        for (k, f) in l.fields.iter().enumerate() {
            writeln!(s, "        {}: {},", f.name, val_conv(l, &f.ty, &format!("&vals[{}]", k))).unwrap();
        }
        writeln!(s, "    }};").unwrap();
        writeln!(s, "    if alternate {{ format!(\"{{:#?}}\", t) }} else {{ format!(\"{{:?}}\", t) }}\n}}").unwrap();
    }
    if let Some(c) = consts {
        s.push_str(c);
    }
    writeln!(s, "fn assert_copy<T: Copy>() {{}}").unwrap();
    let json = serde_json::to_string(l).unwrap();
    let src = render_layout(l, &ro);
    writeln!(s, "pub fn entry() -> rt::Entry {{").unwrap();
    writeln!(s, "    assert_copy::<S>();").unwrap();
    writeln!(s, "    rt::Entry {{").unwrap();
    writeln!(s, "        id: {},", id).unwrap();
    writeln!(s, "        layout_json: r####\"{}\"####,", json).unwrap();
    writeln!(s, "        source: r####\"{}\"####,", src).unwrap();
    writeln!(s, "        from_raw,").unwrap();
    writeln!(s, "        zero: {},", if o.zero { "Some(zero)" } else { "None" }).unwrap();
    writeln!(s, "        defaults: {},", if has_defaults { "Some(defaults)" } else { "None" }).unwrap();
    writeln!(s, "        build: {},", if has_builder { "Some(build)" } else { "None" }).unwrap();
    writeln!(s, "        twin_debug: {},", if has_twin { "Some(twin_debug)" } else { "None" }).unwrap();
    if o.size_align {
        let n = native(l.base_bits);
        writeln!(
            s,
            "        size_align: Some((::core::mem::size_of::<S>(), ::core::mem::align_of::<S>(), ::core::mem::size_of::<{}>(), ::core::mem::align_of::<{}>())),",
            n, n
        )
        .unwrap();
    } else {
        writeln!(s, "        size_align: None,").unwrap();
    }
    writeln!(s, "        consts: {},", if consts.is_some() { "Some(consts)" } else { "None" }).unwrap();
    writeln!(s, "    }}\n}}").unwrap();
    s
}

/// One module file for a bitenum of a behaviour crate (C07).
pub fn emit_enum_module(id: usize, e: &EnumDecl, consts: Option<&str>) -> String {
    let mut s = String::new();
    writeln!(s, "{}", MOD_ALLOW).unwrap();
    writeln!(s, "use arbitrary_int::*;\nuse rt::Val;\n").unwrap();
    let ro = RenderOpts::default();
    writeln!(s, "pub mod decl {{\n    #![allow(dead_code, unused_imports, non_camel_case_types)]\n    use arbitrary_int::*;").unwrap();
    s.push_str(&render_enum(e, &ro));
    writeln!(s, "}}\nuse decl::*;\n").unwrap();
    s.push_str(&enum_to_disc_fn(e));
    let d = format!("disc_{}", e.name.to_lowercase());
    let arg = to_base(e.bits, "x");
    if e.returns_plain() {
        writeln!(s, "fn from_raw(x: u128) -> Val {{ Val::Bits({}({}::new_with_raw_value({}))) }}", d, e.name, arg).unwrap();
    } else {
        writeln!(
            s,
            "fn from_raw(x: u128) -> Val {{ match {}::new_with_raw_value({}) {{ Ok(v) => Val::Ok({}(v)), Err(r) => Val::Err(r as u128) }} }}",
            e.name, arg, d
        )
        .unwrap();
    }
    writeln!(s, "fn raw_of(k: usize) -> u128 {{ match k {{").unwrap();
    for (k, v) in e.variants.iter().enumerate() {
        if v.cfg == Cfg::Never {
            continue;
        }
        writeln!(s, "    {} => {{ let r: u{} = {}::{}.raw_value(); {} }},", k, e.bits, e.name, v.name, from_base(e.bits, "r")).unwrap();
    }
    writeln!(s, "    _ => panic!(\"ADAPTER-BUG: no variant {{}}\", k),\n}} }}").unwrap();
    if let Some(c) = consts {
        s.push_str(c);
    }
    let json = serde_json::to_string(e).unwrap();
    writeln!(s, "pub fn entry() -> rt::EnumEntry {{ rt::EnumEntry {{ id: {}, decl_json: r####\"{}\"####, source: r####\"{}\"####, from_raw, raw_of, consts: {} }} }}", id, json, render_enum(e, &ro), if consts.is_some() { "Some(consts)" } else { "None" }).unwrap();
    s
}

pub struct GenCrate {
    pub name: String,
    pub dir: PathBuf,
}

pub const REPO_MACRO: &str = "/repo/bitbybit";
/// root of the framework tree the generated crates take `rt` and the lock file from: /verif, or a frozen copy of
/// it (BBV_VERIF_ROOT) when seeded changes are evaluated against the framework as it stood at an earlier commit
pub fn verif_root() -> String {
    std::env::var("BBV_VERIF_ROOT").unwrap_or_else(|_| crate::common::verif())
}

/// Build context of the user's crate, varied per generated crate: edition 2021 / 2018 / 2024 and a declared
/// `rust-version` (none / 1.70 / 1.82). Nothing the properties say depends on either; a macro that emits
/// edition-dependent code (a trait that is only in the 2021 prelude) or looks at CARGO_PKG_RUST_VERSION shows here.
/// crate a module goes to: by the number in its name (m12, d12), not by its position in the list, so that a
/// declaration stays in the same crate — the same build context — when the list shrinks between two rounds
fn crate_of(module_name: &str, position: usize, ncrates: usize) -> usize {
    let digits: String = module_name.chars().filter(|c| c.is_ascii_digit()).collect();
    digits.parse::<usize>().unwrap_or(position) % ncrates.max(1)
}

/// build context used for single-crate workspaces (isolated re-checks, replays): 0 = edition 2021, 1 = 2018,
/// 3 = 2024; see `vprops::check_isolated_contexts`
pub static ISO_CONTEXT: std::sync::atomic::AtomicUsize = std::sync::atomic::AtomicUsize::new(0);

pub fn package_context(c: usize) -> String {
    let edition = ["2021", "2018", "2021", "2024"][c % 4];
    // (edition 2024 needs 1.85 at least)
    let rv = match c % 8 {
        1 => "rust-version = \"1.70\"\n",
        2 => "rust-version = \"1.82\"\n",
        3 => "rust-version = \"1.85\"\n",
        5 => "rust-version = \"1.60\"\n",
        _ => "",
    };
    format!("edition = \"{}\"\n{}", edition, rv)
}

fn macro_path() -> String {
    std::env::var("BBV_MACRO_PATH").unwrap_or_else(|_| REPO_MACRO.to_string())
}

/// Workspace with `n` binary crates; modules[i] = (module name, source) go to crate i % n.
pub fn write_b_workspace(dir: &Path, crate_prefix: &str, modules: &[(String, String)], ncrates: usize, enums: bool) -> Vec<GenCrate> {
    let _ = std::fs::remove_dir_all(dir);
    std::fs::create_dir_all(dir).unwrap();
    let ncrates = ncrates.max(1).min(modules.len().max(1));
    let mut members = Vec::new();
    let mut crates = Vec::new();
    for c in 0..ncrates {
        let name = format!("{}{}", crate_prefix, c);
        let cdir = dir.join(&name);
        std::fs::create_dir_all(cdir.join("src")).unwrap();
        let mut main = String::new();
        writeln!(main, "{}", MOD_ALLOW).unwrap();
        let mut entries = Vec::new();
        for (k, (mname, src)) in modules.iter().enumerate() {
            if crate_of(mname, k, ncrates) != c {
                continue;
            }
            std::fs::write(cdir.join("src").join(format!("{}.rs", mname)), fill_module_path(src, mname)).unwrap();
            writeln!(main, "mod {};", mname).unwrap();
            entries.push(format!("{}::entry()", mname));
        }
        writeln!(main, "fn main() {{\n    rt::{}(vec![\n        {}\n    ]);\n}}", if enums { "main_enums" } else { "main_layouts" }, entries.join(",\n        ")).unwrap();
        std::fs::write(cdir.join("src/main.rs"), main).unwrap();
        let toml = format!(
            "[package]\nname = \"{}\"\nversion = \"0.0.0\"\n{}\n[dependencies]\nbitbybit = {{ path = \"{}\" }}\narbitrary-int = \"1.3.0\"\nrt = {{ path = \"{}/engine/rt\" }}\n",
            name,
            package_context(c),
            macro_path(),
            verif_root()
        );
        std::fs::write(cdir.join("Cargo.toml"), toml).unwrap();
        members.push(format!("\"{}\"", name));
        crates.push(GenCrate { name, dir: cdir });
    }
    let ws = format!(
        "[workspace]\nresolver = \"2\"\nmembers = [{}]\n\n[profile.dev]\nopt-level = 0\ndebug = 0\nincremental = false\noverflow-checks = true\ndebug-assertions = true\n\n[profile.dev.package.\"*\"]\nopt-level = 2\n\n[profile.release]\nopt-level = 3\ndebug = 0\nincremental = false\noverflow-checks = false\ndebug-assertions = false\n\n[profile.checked]\ninherits = \"release\"\noverflow-checks = true\ndebug-assertions = true\n",
        members.join(", ")
    );
    std::fs::write(dir.join("Cargo.toml"), ws).unwrap();
    std::fs::copy(format!("{}/engine/gen.Cargo.lock", verif_root()), dir.join("Cargo.lock")).ok();
    crates
}

/// Workspace of library crates that are only `cargo check`ed (in parallel); files[i] = (module
/// name, source) goes to crate i % ncrates. Module names are unique across the workspace, so
/// diagnostics are attributed by file stem.
pub fn write_v_crate(dir: &Path, name: &str, files: &[(String, String)], no_std: bool, deny_docs: bool) {
    let ncrates = if files.len() >= 64 { 16 } else if files.len() >= 8 { 4 } else { 1 };
    write_v_crate_n(dir, name, files, no_std, deny_docs, ncrates)
}

pub fn write_v_crate_n(dir: &Path, name: &str, files: &[(String, String)], no_std: bool, deny_docs: bool, ncrates: usize) {
    let _ = std::fs::remove_dir_all(dir);
    std::fs::create_dir_all(dir).unwrap();
    let mut members = Vec::new();
    for c in 0..ncrates {
        let cname = format!("{}_{}", name, c);
        let cdir = dir.join(&cname);
        std::fs::create_dir_all(cdir.join("src")).unwrap();
        let mut lib = String::new();
        if no_std {
            writeln!(lib, "#![no_std]").unwrap();
        }
        if deny_docs {
            writeln!(lib, "#![deny(missing_docs)]\n//! generated crate").unwrap();
        }
        writeln!(lib, "#![allow(dead_code, unused_imports, unused_variables, unused_mut, deprecated, unreachable_code, non_camel_case_types, unused_parens)]").unwrap();
        for (k, (m, src)) in files.iter().enumerate() {
            if crate_of(m, k, ncrates) != c {
                continue;
            }
            std::fs::write(cdir.join("src").join(format!("{}.rs", m)), fill_module_path(src, m)).unwrap();
            if deny_docs {
                writeln!(lib, "/// generated module\npub mod {};", m).unwrap();
            } else {
                writeln!(lib, "pub mod {};", m).unwrap();
            }
        }
        std::fs::write(cdir.join("src/lib.rs"), lib).unwrap();
        let toml = format!(
            "[package]\nname = \"{}\"\nversion = \"0.0.0\"\n{}\n[dependencies]\nbitbybit = {{ path = \"{}\" }}\narbitrary-int = \"1.3.0\"\n",
            cname,
            package_context(if ncrates == 1 { ISO_CONTEXT.load(std::sync::atomic::Ordering::Relaxed) } else { c }),
            macro_path()
        );
        // regime crates (C18) also forbid `unexpected_cfgs`: a `#[cfg(feature = "..")]` (or any other condition the
        // user's crate never declared) emitted by the macro is evaluated in the *user's* crate — generated code
        // whose meaning depends on it refers to things outside core and arbitrary_int as soon as the user
        // happens to have a feature of that name. `forbid` also defeats an `#[allow(unexpected_cfgs)]` emitted
        // next to it.
        let toml = if deny_docs { format!("{}\n[lints.rust]\nunexpected_cfgs = \"forbid\"\n", toml) } else { toml };
        std::fs::write(cdir.join("Cargo.toml"), toml).unwrap();
        members.push(format!("\"{}\"", cname));
    }
    // `<name>_dep` depends on every crate of the workspace: `cargo check -p <name>_dep` compiles them as
    // *dependencies* (not as primary packages) — the way a library holding bitfield declarations is usually built
    {
        let dname = format!("{}_dep", name);
        let ddir = dir.join(&dname);
        std::fs::create_dir_all(ddir.join("src")).unwrap();
        std::fs::write(ddir.join("src/lib.rs"), "//! depends on every generated crate\n").unwrap();
        let mut toml = format!("[package]\nname = \"{}\"\nversion = \"0.0.0\"\nedition = \"2021\"\n\n[dependencies]\n", dname);
        for c in 0..ncrates {
            toml.push_str(&format!("{}_{} = {{ path = \"../{}_{}\" }}\n", name, c, name, c));
        }
        std::fs::write(ddir.join("Cargo.toml"), toml).unwrap();
        members.push(format!("\"{}\"", dname));
    }
    let ws = format!(
        "[workspace]\nresolver = \"2\"\nmembers = [{}]\n\n[profile.dev]\ndebug = 0\nincremental = false\n\n[profile.release]\ndebug = 0\nincremental = false\n",
        members.join(", ")
    );
    std::fs::write(dir.join("Cargo.toml"), ws).unwrap();
    std::fs::copy(format!("{}/engine/gen.Cargo.lock", verif_root()), dir.join("Cargo.lock")).ok();
}
