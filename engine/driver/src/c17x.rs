//! C17, third part: "a field marked r gets a getter and nothing that can modify it". Probing for `with_x` /
//! `set_x` by name cannot see a modifier that carries another name (`try_with_x`, `x_assign`, `update_x`). Here
//! the macro expansion of generated declarations (nightly `-Zunpretty=expanded`, as in C18) is tokenised and the
//! *whole* public surface of the struct is listed: every `pub fn` in an inherent `impl S { .. }` block. A method
//! that can produce a modified value (takes `&mut self`, or returns `Self` / `S`), is not one of the methods the
//! access letters call for, and is named after a field that has no setter (`<prefix>_<field>`, `<field>_<suffix>`,
//! `<prefix>_<field>_<suffix>`) is a violation. Methods named after no such field (struct-level API a future
//! version may add) are listed in the evidence and not judged.

use crate::c18::expand_text;
use crate::common::*;
use crate::emit::{method_name, write_v_crate_n};
use crate::vprops::V_PRELUDE;
use model::*;
use proc_macro2::{Delimiter, TokenStream, TokenTree};
use serde_json::{json, Value};
use std::collections::{BTreeMap, HashSet};
use std::str::FromStr;

#[derive(Clone, Debug)]
pub struct PubFn {
    pub name: String,
    pub takes_mut_self: bool,
    pub returns_self: bool,
}

fn ident_of(t: &TokenTree) -> Option<String> {
    match t {
        TokenTree::Ident(i) => Some(i.to_string()),
        _ => None,
    }
}

/// every `pub fn` of the inherent impl blocks of `struct_name` found in `ts` (nested modules included)
pub fn pub_fns(ts: TokenStream, struct_name: &str, out: &mut Vec<PubFn>) {
    let toks: Vec<TokenTree> = ts.into_iter().collect();
    let mut i = 0;
    while i < toks.len() {
        match ident_of(&toks[i]).as_deref() {
            Some("mod") => {
                // mod NAME { .. }
                if let (Some(_), Some(TokenTree::Group(g))) = (toks.get(i + 1).and_then(ident_of), toks.get(i + 2)) {
                    if g.delimiter() == Delimiter::Brace {
                        pub_fns(g.stream(), struct_name, out);
                        i += 3;
                        continue;
                    }
                }
                i += 1;
            }
            Some("impl") => {
                // header up to the brace group
                let mut k = i + 1;
                let mut header: Vec<&TokenTree> = Vec::new();
                while k < toks.len() {
                    if let TokenTree::Group(g) = &toks[k] {
                        if g.delimiter() == Delimiter::Brace {
                            break;
                        }
                    }
                    header.push(&toks[k]);
                    k += 1;
                }
                let inherent_of_struct = header.len() == 1 && ident_of(header[0]).as_deref() == Some(struct_name);
                if inherent_of_struct {
                    if let Some(TokenTree::Group(g)) = toks.get(k) {
                        scan_impl_body(g.stream(), struct_name, out);
                    }
                }
                i = k + 1;
            }
            _ => i += 1,
        }
    }
}

fn scan_impl_body(ts: TokenStream, struct_name: &str, out: &mut Vec<PubFn>) {
    let toks: Vec<TokenTree> = ts.into_iter().collect();
    for j in 0..toks.len() {
        if ident_of(&toks[j]).as_deref() != Some("fn") {
            continue;
        }
        let name = match toks.get(j + 1).and_then(ident_of) {
            Some(n) => n,
            None => continue,
        };
        // visibility: walk back over qualifiers (const / async / unsafe / extern "..")
        let mut k = j;
        let mut is_pub = false;
        while k > 0 {
            k -= 1;
            match &toks[k] {
                TokenTree::Ident(id) => {
                    let s = id.to_string();
                    if s == "pub" {
                        is_pub = true;
                        break;
                    }
                    if ["const", "async", "unsafe", "extern"].contains(&s.as_str()) {
                        continue;
                    }
                    break;
                }
                TokenTree::Literal(_) => continue, // extern "C"
                TokenTree::Group(g) if g.delimiter() == Delimiter::Parenthesis => {
                    // pub(crate) / pub(super) / pub(in path)
                    if k > 0 && ident_of(&toks[k - 1]).as_deref() == Some("pub") {
                        is_pub = true;
                    }
                    break;
                }
                _ => break,
            }
        }
        if !is_pub {
            continue;
        }
        // parameters: the first parenthesised group after the name (generics in between are skipped)
        let mut p = j + 2;
        let mut params: Option<TokenStream> = None;
        while p < toks.len() {
            if let TokenTree::Group(g) = &toks[p] {
                if g.delimiter() == Delimiter::Parenthesis {
                    params = Some(g.stream());
                    break;
                }
                if g.delimiter() == Delimiter::Brace {
                    break;
                }
            }
            p += 1;
        }
        let params = match params {
            Some(x) => x,
            None => continue,
        };
        let ptoks: Vec<TokenTree> = params.into_iter().collect();
        let mut takes_mut_self = false;
        for q in 0..ptoks.len() {
            if ident_of(&ptoks[q]).as_deref() == Some("self") && q >= 1 && ident_of(&ptoks[q - 1]).as_deref() == Some("mut") {
                // `&mut self` / `&'a mut self` (a by-value `mut self` cannot modify the caller's value)
                let mut b = q - 1;
                let mut by_ref = false;
                while b > 0 {
                    b -= 1;
                    match &ptoks[b] {
                        TokenTree::Punct(pp) if pp.as_char() == '&' => {
                            by_ref = true;
                            break;
                        }
                        TokenTree::Punct(pp) if pp.as_char() == '\'' => continue,
                        TokenTree::Ident(_) => continue, // lifetime name
                        _ => break,
                    }
                }
                takes_mut_self = by_ref;
            }
        }
        // return type: tokens between the parameter list and the body
        let mut returns_self = false;
        let mut r = p + 1;
        while r < toks.len() {
            match &toks[r] {
                TokenTree::Group(g) if g.delimiter() == Delimiter::Brace => break,
                TokenTree::Punct(pp) if pp.as_char() == ';' => break,
                TokenTree::Ident(id) => {
                    let s = id.to_string();
                    if s == "Self" || s == struct_name {
                        returns_self = true;
                    }
                }
                TokenTree::Group(g) => {
                    // Result<Self, ..> is flat; tuples / arrays are groups
                    for t in g.stream() {
                        if let Some(s) = ident_of(&t) {
                            if s == "Self" || s == struct_name {
                                returns_self = true;
                            }
                        }
                    }
                }
                _ => {}
            }
            r += 1;
        }
        out.push(PubFn { name: name.trim_start_matches("r#").to_string(), takes_mut_self, returns_self });
    }
}

const STRUCT_LEVEL: [&str; 6] = ["raw_value", "new_with_raw_value", "new", "builder", "default", "build"];
/// field names too generic to tie a method name to (they occur inside the names of struct-level methods)
const GENERIC_NAMES: [&str; 14] = ["value", "raw", "new", "default", "builder", "index", "mask", "shift", "result", "one", "with", "set", "field_value", "effective_index"];

/// is method `m` named after field `g`: `<prefix>_g`, `g_<suffix>` or `<prefix>_g_<suffix>` (whole `_`-separated
/// components; `g` itself is the getter and never a candidate)
pub fn named_after(m: &str, g: &str) -> bool {
    if m == g || g.len() < 2 || GENERIC_NAMES.contains(&g) {
        return false;
    }
    m.ends_with(&format!("_{}", g)) || m.starts_with(&format!("{}_", g)) || m.contains(&format!("_{}_", g))
}

pub struct SurfaceOut {
    pub violations: Vec<Violation>,
    pub declarations: usize,
    pub pub_fns_seen: u64,
    pub modifiers_seen: u64,
    pub unexpected_but_unrelated: BTreeMap<String, u64>,
}

/// methods the access letters call for
fn expected_names(l: &Layout) -> HashSet<String> {
    let mut s: HashSet<String> = STRUCT_LEVEL.iter().map(|x| x.to_string()).collect();
    for f in &l.fields {
        let m = method_name(f);
        if f.access.readable() {
            s.insert(m.clone());
        }
        if f.access.writable() {
            s.insert(format!("with_{}", m));
            s.insert(format!("set_{}", m));
        }
    }
    s
}

pub fn judge(l: &Layout, fns: &[PubFn]) -> (Vec<(String, String)>, Vec<String>) {
    let expected = expected_names(l);
    let mut bad = Vec::new();
    let mut unrelated = Vec::new();
    for f in fns {
        if !(f.takes_mut_self || f.returns_self) || expected.contains(&f.name) {
            continue;
        }
        let mut hit = None;
        for g in &l.fields {
            if g.access.writable() {
                continue;
            }
            let gm = method_name(g);
            if named_after(&f.name, &gm) {
                hit = Some(gm);
                break;
            }
        }
        match hit {
            Some(g) => bad.push((f.name.clone(), g)),
            None => unrelated.push(f.name.clone()),
        }
    }
    (bad, unrelated)
}

fn expand_modules(rc: &RunCtx, tag: &str, items: &[(usize, String)]) -> Result<TokenStream, String> {
    let dir = rc.work.join(tag);
    let files: Vec<(String, String)> = items.iter().map(|(id, src)| (format!("d{}", id), format!("{}{}", V_PRELUDE, src))).collect();
    write_v_crate_n(&dir, "c17surf", &files, false, false, 1);
    let text = expand_text(&dir, "c17surf")?;
    TokenStream::from_str(&text).map_err(|e| format!("cannot tokenise the expansion: {}", e))
}

/// module name -> token stream of its body
fn modules_of(ts: TokenStream) -> BTreeMap<String, TokenStream> {
    let toks: Vec<TokenTree> = ts.into_iter().collect();
    let mut out = BTreeMap::new();
    let mut i = 0;
    while i + 2 < toks.len() {
        if ident_of(&toks[i]).as_deref() == Some("mod") {
            if let (Some(n), TokenTree::Group(g)) = (ident_of(&toks[i + 1]), &toks[i + 2]) {
                if g.delimiter() == Delimiter::Brace {
                    out.insert(n, g.stream());
                    i += 3;
                    continue;
                }
            }
        }
        i += 1;
    }
    out
}

pub fn surface_scan(rc: &RunCtx, layouts: &[(usize, Layout, String)]) -> Result<SurfaceOut, String> {
    let items: Vec<(usize, String)> = layouts.iter().map(|(id, _, src)| (*id, src.clone())).collect();
    let ts = expand_modules(rc, "c17-surface", &items)?;
    let mods = modules_of(ts);
    let mut out = SurfaceOut { violations: vec![], declarations: 0, pub_fns_seen: 0, modifiers_seen: 0, unexpected_but_unrelated: BTreeMap::new() };
    for (id, l, src) in layouts {
        let body = match mods.get(&format!("d{}", id)) {
            Some(b) => b.clone(),
            None => return Err(format!("module d{} is missing from the expansion", id)),
        };
        let mut fns = Vec::new();
        pub_fns(body, &l.name, &mut fns);
        if fns.is_empty() {
            return Err(format!("no public method of {} found in the expansion of module d{} (scanner out of step with the expansion format)", l.name, id));
        }
        out.declarations += 1;
        out.pub_fns_seen += fns.len() as u64;
        out.modifiers_seen += fns.iter().filter(|f| f.takes_mut_self || f.returns_self).count() as u64;
        let (bad, unrelated) = judge(l, &fns);
        for u in unrelated {
            *out.unexpected_but_unrelated.entry(u).or_insert(0) += 1;
        }
        for (m, g) in bad {
            out.violations.push(Violation {
                sig: "surface/modifier-named-after-a-field-without-setter".into(),
                summary: format!("C17: the generated struct has a public method `{}` that can modify the value (takes &mut self or returns Self) and is named after field `{}`, which has no setter\n{}", m, g, src),
                replay: json!({"kind": "surface", "property": "C17", "source": src, "layout": l, "method": m, "field": g}),
            });
        }
    }
    Ok(out)
}

pub fn replay_doc(rc: &RunCtx, doc: &Value) -> Result<(), String> {
    let l: Layout = serde_json::from_value(doc["layout"].clone()).unwrap_or_else(|e| inconclusive(&format!("bad layout in replay: {}", e)));
    let src = doc["source"].as_str().unwrap_or_else(|| inconclusive("replay without source")).to_string();
    let out = surface_scan(rc, &[(0, l, src)]).unwrap_or_else(|e| inconclusive(&format!("expansion failed: {}", e)));
    match out.violations.first() {
        Some(v) => Err(v.summary.clone()),
        None => Ok(()),
    }
}

#[cfg(test)]
mod tests {
    use super::*;
    #[test]
    fn scanner_finds_pub_fns() {
        let src = "pub mod d1 { pub mod decl { pub struct S { raw_value: u8 } impl S { pub const ZERO: Self = S { raw_value: 0 }; \
                   #[inline] pub const fn a(&self) -> u8 { 1 } pub const fn with_a(&self, v: u8) -> Self { *self } pub fn set_a(&mut self, v: u8) { } \
                   fn private_helper(&mut self) {} pub(crate) const fn try_with_b(&self, v: u8) -> Result<Self, u8> { Ok(*self) } } \
                   impl Default for S { fn default() -> Self { S::ZERO } } impl<const M: u8> PartialS<M> { pub fn x(&mut self) {} } } }";
        let ts = TokenStream::from_str(src).unwrap();
        let mods = modules_of(ts);
        let mut fns = Vec::new();
        pub_fns(mods["d1"].clone(), "S", &mut fns);
        let names: Vec<&str> = fns.iter().map(|f| f.name.as_str()).collect();
        assert_eq!(names, vec!["a", "with_a", "set_a", "try_with_b"]);
        assert!(!fns[0].takes_mut_self && !fns[0].returns_self);
        assert!(fns[1].returns_self);
        assert!(fns[2].takes_mut_self);
        assert!(fns[3].returns_self);
        assert!(named_after("try_with_f1", "f1"));
        assert!(named_after("f1_assign", "f1"));
        assert!(named_after("try_f1_unchecked", "f1"));
        assert!(!named_after("with_af1", "f1"));
        assert!(!named_after("f1", "f1"));
        assert!(!named_after("try_with_b", "b")); // one-letter names are too generic to tie a method to
        assert!(!named_after("new_with_raw_value", "value"));
    }
}
