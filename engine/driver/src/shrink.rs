//! Program-level shrinking: greedy structural reducer over a `Layout`.
//! Works on any layout (generated or hand-written); every candidate is re-checked by the caller's
//! predicate (re-emit, rebuild against /repo, re-run), so the result is a real, smaller failing program.

use model::*;

fn unsigned(w: u32) -> FieldTy {
    if is_native_width(w) {
        FieldTy::UNat { bits: w }
    } else {
        FieldTy::UArb { bits: w, qualified: false }
    }
}

/// remove enums / inner layouts that no field refers to any more and renumber
pub fn gc_aux(l: &mut Layout) {
    let mut used_e: Vec<usize> = Vec::new();
    let mut used_i: Vec<usize> = Vec::new();
    for f in &l.fields {
        match &f.ty {
            FieldTy::Enum { idx, .. } => {
                if !used_e.contains(idx) {
                    used_e.push(*idx)
                }
            }
            FieldTy::Nested { idx } => {
                if !used_i.contains(idx) {
                    used_i.push(*idx)
                }
            }
            _ => {}
        }
    }
    used_e.sort();
    used_i.sort();
    let new_e: Vec<EnumDecl> = used_e.iter().map(|i| l.enums[*i].clone()).collect();
    let new_i: Vec<Layout> = used_i.iter().map(|i| l.inners[*i].clone()).collect();
    for f in l.fields.iter_mut() {
        match &mut f.ty {
            FieldTy::Enum { idx, .. } => *idx = used_e.iter().position(|x| x == idx).unwrap(),
            FieldTy::Nested { idx } => *idx = used_i.iter().position(|x| x == idx).unwrap(),
            _ => {}
        }
    }
    l.enums = new_e;
    l.inners = new_i;
}

/// candidate simplifications, most aggressive first
pub fn candidates(l: &Layout) -> Vec<(String, Layout)> {
    let mut out: Vec<(String, Layout)> = Vec::new();
    // drop a field
    if l.fields.len() > 1 {
        for k in 0..l.fields.len() {
            let mut n = l.clone();
            n.fields.remove(k);
            gc_aux(&mut n);
            out.push((format!("drop field {}", l.fields[k].name), n));
        }
    }
    // drop default / debug
    if l.default.is_some() {
        let mut n = l.clone();
        n.default = None;
        out.push(("drop default".into(), n));
        let mut n = l.clone();
        if let Some(d) = n.default.as_mut() {
            if d.value != 0 || d.named_const {
                d.value = 0;
                d.named_const = false;
                d.radix = 10;
                out.push(("default = 0".into(), n));
            }
        }
    }
    if l.decoys != 0 {
        let mut n = l.clone();
        n.decoys = 0;
        out.push(("drop decoys".into(), n));
    }
    if l.debug {
        let mut n = l.clone();
        n.debug = false;
        for i in n.inners.iter_mut() {
            i.debug = false;
        }
        out.push(("drop debug".into(), n));
    }
    for (k, f) in l.fields.iter().enumerate() {
        // array -> scalar
        if f.array.is_some() {
            let mut n = l.clone();
            n.fields[k].array = None;
            out.push((format!("{}: array -> scalar", f.name), n));
            if let Some(a) = &f.array {
                if a.count > 2 {
                    let mut n = l.clone();
                    n.fields[k].array = Some(ArrayDecl { count: 2, ..a.clone() });
                    out.push((format!("{}: K -> 2", f.name), n));
                }
            }
        }
        // enum / nested -> plain unsigned of the same width
        if matches!(f.ty, FieldTy::Enum { .. } | FieldTy::Nested { .. } | FieldTy::INat { .. }) {
            let w = f.width();
            if w >= 1 && w <= 128 {
                let mut n = l.clone();
                n.fields[k].ty = unsigned(w);
                gc_aux(&mut n);
                out.push((format!("{}: type -> u{}", f.name, w), n));
            }
        }
        // list -> one contiguous range at the lowest position, same width
        if f.ranges.len() > 1 {
            let w = f.width();
            let lo = f.ranges.iter().map(|r| r.lo).min().unwrap();
            let mut n = l.clone();
            n.fields[k].ranges = vec![Rng::new(lo, lo + w - 1)];
            n.fields[k].list = false;
            n.fields[k].kw_bit = false;
            out.push((format!("{}: list -> range", f.name), n));
            // drop the last range (unsigned types only: the type follows the width)
            if matches!(f.ty, FieldTy::UArb { .. } | FieldTy::UNat { .. }) {
                let mut n = l.clone();
                n.fields[k].ranges.pop();
                let nw = n.fields[k].width();
                if nw >= 1 {
                    n.fields[k].ty = unsigned(nw);
                    out.push((format!("{}: drop last range", f.name), n));
                }
            }
        }
        // narrow (unsigned, contiguous)
        if f.ranges.len() == 1 && matches!(f.ty, FieldTy::UArb { .. } | FieldTy::UNat { .. }) {
            let w = f.width();
            for nw in [1u32, w / 2, w - 1] {
                if nw >= 1 && nw < w {
                    let mut n = l.clone();
                    let r = &mut n.fields[k].ranges[0];
                    r.hi = r.lo + nw - 1;
                    r.short = false;
                    n.fields[k].kw_bit = false;
                    n.fields[k].ty = unsigned(nw);
                    if let Some(a) = n.fields[k].array.as_mut() {
                        if a.stride.is_none() {
                            a.stride = Some(w);
                        }
                    }
                    out.push((format!("{}: width -> {}", f.name, nw), n));
                }
            }
        }
        // move towards bit 0
        let low = f.ranges.iter().map(|r| r.lo).min().unwrap_or(0);
        if low > 0 {
            for delta in [low, (low + 1) / 2, 1] {
                let mut n = l.clone();
                for r in n.fields[k].ranges.iter_mut() {
                    r.lo -= delta;
                    r.hi -= delta;
                }
                out.push((format!("{}: move down by {}", f.name, delta), n));
            }
        }
        // rw access
        if f.access != Access::RW {
            let mut n = l.clone();
            n.fields[k].access = Access::RW;
            out.push((format!("{}: access -> rw", f.name), n));
        }
    }
    // smaller base
    let top = l.fields.iter().map(|f| f.highest_bit() + 1).max().unwrap_or(1);
    let mut bases: Vec<u32> = vec![8, 16, 32, 64, top, top.max(1), l.base_bits - 1];
    bases.retain(|b| *b >= top && *b < l.base_bits && *b >= 1);
    bases.sort();
    bases.dedup();
    for b in bases {
        let mut n = l.clone();
        n.base_bits = b;
        if let Some(d) = n.default.as_mut() {
            d.value &= mask(b);
        }
        out.push((format!("base -> u{}", b), n));
    }
    out
}

fn size(l: &Layout) -> usize {
    serde_json::to_string(l).map(|s| s.len()).unwrap_or(0)
}

/// Greedy reduction: repeatedly take the first candidate the predicate still fails on.
/// `still_fails` is expensive (a compilation); bounded by `max_steps` evaluations.
pub fn reduce(start: &Layout, max_steps: usize, mut still_fails: impl FnMut(&Layout) -> bool) -> (Layout, usize, Vec<String>) {
    let mut cur = start.clone();
    let mut steps = 0;
    let mut log = Vec::new();
    let mut progress = true;
    let mut tried: std::collections::HashSet<String> = std::collections::HashSet::new();
    while progress && steps < max_steps {
        progress = false;
        for (name, cand) in candidates(&cur) {
            if steps >= max_steps {
                break;
            }
            let key = serde_json::to_string(&cand).unwrap_or_default();
            if !tried.insert(key) {
                continue;
            }
            if size(&cand) >= size(&cur) && !name.contains("move down") && !name.contains("access") && !name.contains("base") {
                continue;
            }
            steps += 1;
            if still_fails(&cand) {
                log.push(name);
                cur = cand;
                progress = true;
                break;
            }
        }
    }
    (cur, steps, log)
}
