//! Behavioural properties decided by compiled B-crates: C01-C06, C08, C11-C13, C16, C19.

use crate::cargo::{self, cargo};
use crate::common::*;
use crate::corpus;
use crate::emit::*;
use crate::gen::*;
use model::render::{render_layout, RenderOpts};
use model::*;
use rt::cases::Case;
use rt::run::LayoutResult;
use serde_json::{json, Value};
use std::collections::BTreeMap;
use std::path::PathBuf;
use std::process::Command;

pub struct BConfig {
    pub emit: EmitOpts,
    pub profiles: Vec<&'static str>,
    pub cases: u32,
    pub max_ops: usize,
    pub exh_budget: u64,
    pub ncrates: usize,
    /// shrinking mode: infrastructure problems make the candidate "not failing" instead of ending the run
    pub tolerant: bool,
}

pub struct BOut {
    /// per profile: results by layout id
    pub results: Vec<(String, Vec<LayoutResult>)>,
    /// layouts whose module did not compile: (id, messages)
    pub uncompilable: Vec<(usize, Vec<String>)>,
    pub build_s: f64,
    pub run_s: f64,
}

pub fn profile_flag(p: &str) -> Vec<String> {
    match p {
        "dev" => vec![],
        "release" => vec!["--release".to_string()],
        other => vec!["--profile".to_string(), other.to_string()],
    }
}

pub fn profile_dir(p: &str) -> &str {
    match p {
        "dev" => "debug",
        other => other,
    }
}

/// Emit, build and run a corpus. Modules that do not compile are removed (and reported) and the
/// rest is rebuilt.
pub fn run_corpus(rc: &RunCtx, cfg: &BConfig, layouts: &[(usize, Layout)], tag: &str, extra_args: &[String], consts: Option<&dyn Fn(usize, &Layout) -> Option<String>>) -> BOut {
    let dir: PathBuf = rc.work.join(tag);
    let prefix = format!("{}{}x", rc.prop.to_lowercase(), tag);
    let mut live: Vec<(usize, Layout)> = layouts.to_vec();
    let mut uncompilable: Vec<(usize, Vec<String>)> = Vec::new();
    let mut build_s = 0.0;
    let mut run_s = 0.0;
    let mut results = Vec::new();
    let bail = |msg: String| -> BOut {
        if !cfg.tolerant {
            inconclusive(&msg);
        }
        BOut { results: vec![], uncompilable: vec![], build_s: 0.0, run_s: 0.0 }
    };
    for (pi, profile) in cfg.profiles.iter().enumerate() {
        let mut crates;
        let mut attempts = 0;
        loop {
            let modules: Vec<(String, String)> = live
                .iter()
                .map(|(id, l)| {
                    let c = consts.and_then(|f| f(*id, l));
                    (format!("m{}", id), emit_b_module(*id, l, &cfg.emit, c.as_deref()))
                })
                .collect();
            crates = write_b_workspace(&dir, &prefix, &modules, cfg.ncrates, false);
            let mut args: Vec<String> = vec!["build".into(), "--offline".into(), "--keep-going".into(), "--message-format=json".into()];
            args.extend(profile_flag(profile));
            let argv: Vec<&str> = args.iter().map(|s| s.as_str()).collect();
            let out = cargo(&dir, None, &argv, "gen", &[]);
            build_s += out.wall_s;
            if out.success {
                break;
            }
            attempts += 1;
            // is the macro crate itself broken?
            let macro_broken = out.diags.iter().any(|d| d.level == "error" && d.package.contains("bitbybit")) || out.stderr.contains("could not compile `bitbybit`");
            if macro_broken {
                return bail(format!("the bitbybit crate does not build from /repo: {}", cargo::tail(&out.stderr, 5)));
            }
            let (by_mod, un) = cargo::attribute(&out.diags);
            if by_mod.is_empty() || attempts > 8 {
                return bail(format!(
                    "generated corpus {} does not build (profile {}): {} unattributed errors; {}",
                    tag,
                    profile,
                    un.len(),
                    cargo::tail(&out.stderr, 8)
                ));
            }
            for (m, msgs) in by_mod {
                if let Some(id) = m.strip_prefix('m').and_then(|x| x.parse::<usize>().ok()) {
                    live.retain(|(i, _)| *i != id);
                    uncompilable.push((id, msgs.into_iter().map(|(l, t)| format!("[profile {}] line {}: {}", profile, l, t)).collect()));
                }
            }
            if live.is_empty() {
                break;
            }
        }
        if live.is_empty() {
            results.push((profile.to_string(), vec![]));
            continue;
        }
        // run
        let t0 = std::time::Instant::now();
        let mut all: Vec<LayoutResult> = Vec::new();
        for c in &crates {
            let bin = format!("{}/gen/{}/{}", cargo::target_root(), profile_dir(profile), c.name);
            let outp = dir.join(format!("{}.{}.result.json", c.name, profile));
            let _ = std::fs::remove_file(&outp);
            let mut cmd = Command::new(&bin);
            cmd.args(["--prop", &rc.prop, "--seed", &rc.seed.to_string(), "--cases", &cfg.cases.to_string(), "--out", outp.to_str().unwrap()])
                .args(["--threads", "16", "--max-ops", &cfg.max_ops.to_string(), "--exh-budget", &cfg.exh_budget.to_string()])
                .args(extra_args);
            let st = cmd.output();
            match st {
                Ok(o) if o.status.success() => {}
                Ok(o) => return bail(format!("generated binary {} failed: {} {}", bin, o.status, cargo::tail(&String::from_utf8_lossy(&o.stderr), 5))),
                Err(e) => return bail(format!("cannot run {}: {}", bin, e)),
            }
            let text = match std::fs::read_to_string(&outp) {
                Ok(t) => t,
                Err(e) => return bail(format!("no result file {}: {}", outp.display(), e)),
            };
            let mut r: Vec<LayoutResult> = match serde_json::from_str(&text) {
                Ok(r) => r,
                Err(e) => return bail(format!("bad result file: {}", e)),
            };
            all.append(&mut r);
        }
        run_s += t0.elapsed().as_secs_f64();
        all.sort_by_key(|r| r.id);
        results.push((profile.to_string(), all));
        rc.watchdog();
    }
    BOut { results, uncompilable, build_s, run_s }
}

pub fn case_field(c: &Case) -> Option<usize> {
    match c {
        Case::Read { f, .. } | Case::Write { f, .. } | Case::Oob { f, .. } => Some(*f),
        _ => None,
    }
}

pub fn class_of(l: &Layout, c: &Case) -> String {
    match case_field(c) {
        Some(f) if f < l.fields.len() => field_class(l, &l.fields[f]),
        _ => base_class(l.base_bits),
    }
}

pub fn rule_text(prop: &str) -> &'static str {
    match prop {
        "C01" => "cases = (declaration, raw value, readable contiguous field); exhaustive over raw for bases <= 12 bits, proptest otherwise. Non-trivial: raw has a 1 outside the field's footprint and the footprint holds both a 0 and a 1 (single-bit fields: any), distinct by (declaration, field, raw, noise, k)",
        "C02" => "cases = (declaration, raw, writable field, value) checked through with_ and set_; exhaustive over (raw, value) when base <= 12 bits and field <= 8 bits. Non-trivial: old field value != v, not (old == 0 and v == all-ones), and the bits outside the footprint are neither all 0 nor all 1; distinct by full case",
        "C03" => "cases = (declaration with array field, raw, element index, value | out-of-range index x getter/with_/set_). Non-trivial: out-of-range probe, or a write that changes the element while other bits are mixed; distinct by full case",
        "C04" => "cases = (declaration with a range-list field, raw, [index], value). Non-trivial: write changes the field while the other bits are mixed / read with mixed field bits; distinct by full case",
        "C05" => "cases = (declaration with iN field, raw, [index], value bit pattern). Non-trivial as C02; distinct by full case",
        "C06" => "cases = (declaration, raw value) round trips plus one static case per declaration (ZERO, DEFAULT, Default::default(), new(), size, align, Copy). Non-trivial: raw not 0 and not all-ones; distinct by (declaration, raw)",
        "C08" => "cases = (declaration with enum / Option<enum> / nested-bitfield field, raw, [index], variant or inner value). Non-trivial as C02; distinct by full case",
        "C11" => "cases = (declaration over an arbitrary-int base, starting raw, history of with_/set_/builder/read ops); after every step raw_value() and all getters are compared with the N-bit model and with new_with_raw_value(x.raw_value()). Non-trivial: history writes a field that covers bit N-1; distinct by full history",
        "C12" => "cases = (declaration possibly with overlapping fields, starting raw, history of with_/set_/read/rewrap ops); model applied write by write plus an independent last-write-wins computation of the final state. Non-trivial: >= 2 writes where a later one covers a bit written earlier; distinct by full history",
        "C13" => "cases = (declaration offering a builder, argument tuple). Non-trivial: arguments not all equal and (default has bits outside every writable field, or an array field, or >= 2 arguments); distinct by argument tuple",
        "C16" => "cases = read / write / out-of-range / history / raw / build cases run identically (same seed) in a dev (opt 0, overflow checks on) and a release (opt 3, checks off) build; per-declaration digests of all observed results must be equal and every result must equal the model. Non-trivial per the rule of the case kind; distinct by full case",
        "C19" => "cases = (debug declaration, raw, short history). Text of {:?} and {:#?} compared with a derive(Debug) twin struct filled from model values. Non-trivial: >= 2 fields whose declaration order differs from bit order and raw != 0; distinct by (declaration, raw, history)",
        _ => "",
    }
}

pub fn config_for(prop: &str, tier: Tier) -> BConfig {
    let acc = EmitOpts::accessors();
    let mut c = BConfig {
        emit: acc.clone(),
        profiles: tier.pick(vec!["dev"], vec!["dev", "release"]),
        cases: tier.pick(2000, 16000),
        max_ops: 24,
        exh_budget: tier.pick(150_000, 1_500_000),
        ncrates: 16,
        tolerant: false,
    };
    match prop {
        "C01" => {
            c.emit = EmitOpts { getters: true, ..EmitOpts::none() };
        }
        "C03" => {
            c.profiles = vec!["dev", "release"];
            c.cases = tier.pick(1200, 10000);
        }
        "C06" => {
            c.emit = EmitOpts { getters: true, rewrap: true, zero: true, defaults: true, size_align: true, ..EmitOpts::none() };
            c.cases = tier.pick(3000, 20000);
            c.exh_budget = tier.pick(70_000, 2_000_000);
        }
        "C11" => {
            c.emit = EmitOpts { builder: true, defaults: true, derive_eq: true, ..acc.clone() };
            c.cases = tier.pick(600, 5000);
            c.max_ops = tier.pick(16, 48);
        }
        "C12" => {
            c.cases = tier.pick(600, 5000);
            c.max_ops = tier.pick(24, 64);
        }
        "C13" => {
            c.emit = EmitOpts { getters: true, builder: true, ..EmitOpts::none() };
            c.cases = tier.pick(1500, 12000);
        }
        "C16" => {
            c.emit = EmitOpts { builder: true, ..acc.clone() };
            c.profiles = tier.pick(vec!["dev", "release"], vec!["dev", "release", "checked"]);
            c.cases = tier.pick(1000, 8000);
        }
        "C19" => {
            c.emit = EmitOpts { debug: true, ..acc.clone() };
            c.cases = tier.pick(600, 5000);
        }
        _ => {}
    }
    c
}

pub fn run(rc: &RunCtx) -> Outcome {
    let prop = rc.prop.clone();
    let cfg = config_for(&prop, rc.tier);
    let mut layouts = corpus::corpus(&prop, rc.tier, rc.seed);
    // every generated declaration must be rule-valid: anything else is a generator bug
    for (id, l) in &layouts {
        let v = rules::layout_verdict(l);
        let tolerated = prop == "C16" && matches!(&v, rules::Verdict::Unspecified(r) if r == "list names a bit twice");
        if !v.is_valid() && !tolerated {
            inconclusive(&format!("generator bug: layout {} is not rule-valid ({:?}):\n{}", id, v, render_layout(l, &RenderOpts::default())));
        }
    }
    // C11: overhang probes — the same layouts with one field moved into the storage headroom
    // [N, storage). They are expected to be rejected; any probe the macro accepts is compiled and
    // run like the others against the N-bit model.
    let mut probes_total = 0usize;
    let mut probes_accepted = 0usize;
    if prop == "C11" {
        let ro = RenderOpts::default();
        let mut probes: Vec<Layout> = Vec::new();
        for (_, l) in &layouts {
            let st = l.storage_bits();
            if st == l.base_bits || l.fields.is_empty() {
                continue;
            }
            for target in [l.base_bits, st - 1] {
                let fi = (probes.len() + target as usize) % l.fields.len();
                let f = &l.fields[fi];
                let delta = target as i64 - f.highest_bit() as i64;
                if delta <= 0 {
                    continue;
                }
                let mut nl = l.clone();
                for r in nl.fields[fi].ranges.iter_mut() {
                    r.lo = (r.lo as i64 + delta) as u32;
                    r.hi = (r.hi as i64 + delta) as u32;
                }
                if rules::layout_verdict(&nl).is_invalid() {
                    probes.push(nl);
                }
            }
        }
        // the same through arrays: one element more than fits below bit N, still inside the storage
        for (_, l) in &layouts {
            let st = l.storage_bits();
            for (fi, f) in l.fields.iter().enumerate() {
                if let Some(a) = &f.array {
                    let stride = f.stride();
                    let top0 = f.ranges.iter().map(|r| r.hi).max().unwrap_or(0);
                    if stride == 0 || top0 >= l.base_bits {
                        continue;
                    }
                    let k_fit = (l.base_bits - 1 - top0) / stride + 1;
                    let top_new = top0 + k_fit * stride;
                    if top_new < st && top_new >= l.base_bits {
                        let mut nl = l.clone();
                        nl.fields[fi].array = Some(ArrayDecl { count: k_fit + 1, ..a.clone() });
                        if rules::layout_verdict(&nl).is_invalid() {
                            probes.push(nl);
                        }
                    }
                }
            }
        }
        let mut seen = std::collections::HashSet::new();
        probes.retain(|l| seen.insert(render_layout(l, &ro)));
        probes_total = probes.len();
        let items: Vec<(usize, String)> = probes.iter().enumerate().map(|(i, l)| (i, render_layout(l, &ro))).collect();
        let mut accepted = std::collections::BTreeSet::new();
        for mp in ["dev", "release"] {
            let v = crate::vprops::check_decls(rc, "overhang", &items, mp);
            for (i, errs) in v {
                if errs.is_empty() {
                    accepted.insert(i);
                }
            }
        }
        probes_accepted = accepted.len();
        let base = layouts.len();
        for (n, i) in accepted.iter().enumerate() {
            if n >= 64 {
                break;
            }
            layouts.push((base + n, probes[*i].clone()));
        }
    }
    let out = run_corpus(rc, &cfg, &layouts, "b", &[], None);
    let mut o = summarize(rc, &cfg, &layouts, out);
    shrink_violations(rc, &cfg, &mut o);
    // C06: a declared default that is not a value of the (arbitrary-int) base type cannot be carried
    // "exactly" by DEFAULT / Default / new(): such a declaration must not be accepted at all
    if prop == "C06" {
        let ro = RenderOpts::default();
        let mut items: Vec<(usize, String)> = Vec::new();
        let mut ls: Vec<Layout> = Vec::new();
        for b in [1u32, 2, 7, 9, 14, 15, 17, 24, 31, 33, 48, 63, 65, 100, 127] {
            let st = storage_bits(b);
            for (k, v) in [1u128 << b, mask(st), (1u128 << b) | 1].iter().enumerate() {
                for colon in [false, true] {
                    let l = Layout {
                        default: Some(DefaultDecl { value: *v, named_const: k == 2 && colon, radix: 16, const_name: None }),
                        default_colon: colon,
                        ..corpus::lay(b, vec![corpus::fld("f", 0, 1, FieldTy::Bool, Access::RW)])
                    };
                    items.push((ls.len(), render_layout(&l, &ro)));
                    ls.push(l);
                }
            }
        }
        let mut accepted = 0u64;
        for mp in ["dev", "release"] {
            let v = crate::vprops::check_decls(rc, "baddefault", &items, mp);
            for (i, errs) in v {
                if errs.is_empty() {
                    // confirm in isolation
                    if crate::vprops::check_isolated(rc, &items[i].1, None, mp).is_empty() {
                        accepted += 1;
                        if accepted <= 2 {
                            o.violations.push(Violation {
                                sig: format!("default-outside-base-accepted/{}", base_class(ls[i].base_bits)),
                                summary: format!(
                                    "C06: the declared default {:#x} is not a u{} value, yet the declaration compiles (macro {}): DEFAULT cannot have exactly that raw value\n{}",
                                    ls[i].default_value(),
                                    ls[i].base_bits,
                                    mp,
                                    items[i].1
                                ),
                                replay: json!({"kind": "verdict", "source": items[i].1, "expect_accept": false, "macro_profile": mp, "layout": ls[i]}),
                            });
                        }
                    }
                }
            }
        }
        o.coverage["out_of_range_default_declarations_checked"] = json!(items.len() * 2);
        o.coverage["out_of_range_default_declarations_accepted"] = json!(accepted);
    }
    // C19: "(Applies to bitfields whose fields are all readable and not arrays; others do not compile with
    // `debug`.)" -- the same declarations with one field made write-only, accessor-less or an array
    if prop == "C19" {
        let ro = RenderOpts::default();
        let mut items: Vec<(usize, String)> = Vec::new();
        let mut ls: Vec<(Layout, &'static str)> = Vec::new();
        let take = rc.tier.pick(240usize, 2400usize);
        for (n, (_, l)) in layouts.iter().enumerate().take(take) {
            if l.fields.is_empty() {
                continue;
            }
            let fi = n % l.fields.len();
            let mut variants: Vec<(Layout, &'static str)> = Vec::new();
            let mut a = l.clone();
            a.fields[fi].access = Access::W;
            variants.push((a, "write-only"));
            let mut a = l.clone();
            a.fields[fi].access = Access::None;
            variants.push((a, "no-accessors"));
            let f = &l.fields[fi];
            if f.ranges.len() == 1 && f.array.is_none() && f.highest_bit() + f.width() < l.base_bits {
                let mut a = l.clone();
                a.fields[fi].array = Some(ArrayDecl { count: 2, stride: None, colon: false });
                variants.push((a, "array"));
            }
            for (v, what) in variants {
                // apart from `debug`, the declaration stays valid
                let mut plain = v.clone();
                plain.debug = false;
                for i in plain.inners.iter_mut() {
                    i.debug = false;
                }
                if !rules::layout_verdict(&plain).is_valid() || rules::api_name_collision(&v).is_some() {
                    continue;
                }
                items.push((ls.len(), render_layout(&v, &ro)));
                ls.push((v, what));
            }
        }
        let mut accepted = 0u64;
        let mut per_kind: BTreeMap<String, u32> = BTreeMap::new();
        for mp in ["dev"] {
            let v = crate::vprops::check_decls(rc, "debugneg", &items, mp);
            for (i, errs) in v {
                if !errs.is_empty() {
                    continue;
                }
                let n = per_kind.entry(ls[i].1.to_string()).or_insert(0);
                if *n >= 2 {
                    accepted += 1;
                    continue;
                }
                if crate::vprops::check_isolated(rc, &items[i].1, None, mp).is_empty() {
                    accepted += 1;
                    *n += 1;
                    o.violations.push(Violation {
                        sig: format!("debug-accepted-with-{}-field/{}", ls[i].1, base_class(ls[i].0.base_bits)),
                        summary: format!("C19: a `debug` bitfield with a {} field compiles, but only bitfields whose fields are all readable and not arrays may\n{}", ls[i].1, items[i].1),
                        replay: json!({"kind": "verdict", "source": items[i].1, "expect_accept": false, "macro_profile": mp, "layout": ls[i].0}),
                    });
                }
            }
        }
        o.coverage["debug_declarations_with_an_unreadable_or_array_field"] = json!(items.len());
        o.coverage["of_which_accepted"] = json!(accepted);
    }
    if prop == "C11" {
        o.coverage["overhang_probes_generated"] = json!(probes_total);
        o.coverage["overhang_probes_accepted_by_the_macro_and_run"] = json!(probes_accepted);
    }
    o
}

pub fn summarize(rc: &RunCtx, cfg: &BConfig, layouts: &[(usize, Layout)], out: BOut) -> Outcome {
    let prop = rc.prop.as_str();
    let by_id: BTreeMap<usize, &Layout> = layouts.iter().map(|(i, l)| (*i, l)).collect();
    let ro = RenderOpts::default();
    let mut violations = Vec::new();
    let mut evaluations = 0u64;
    let mut nontrivial = 0u64;
    let mut exhaustive_layouts = 0u64;
    let mut skipped = 0u64;
    let mut samples: Vec<Value> = Vec::new();
    let mut kinds: BTreeMap<String, u64> = BTreeMap::new();
    let mut classes: BTreeMap<String, u64> = BTreeMap::new();
    for (id, msgs) in &out.uncompilable {
        let l = by_id[id];
        violations.push(Violation {
            sig: format!("valid-declaration-does-not-compile/{}", base_class(l.base_bits)),
            summary: format!("{}: rule-valid declaration (with the API this property uses) does not compile: {}", prop, msgs.first().cloned().unwrap_or_default()),
            replay: json!({"kind": "behaviour", "layout": l, "source": render_layout(l, &ro), "case": Value::Null, "check": "does-not-compile", "detail": msgs, "profile": "dev"}),
        });
    }
    for (profile, results) in &out.results {
        for r in results {
            let l = by_id[&r.id];
            evaluations += r.evaluations;
            nontrivial += r.nontrivial_distinct;
            if r.exhaustive {
                exhaustive_layouts += 1;
            }
            if r.skipped {
                skipped += 1;
            }
            for (k, n) in &r.kinds {
                *kinds.entry(k.clone()).or_insert(0) += n;
            }
            if let Some(f) = &r.failure {
                if f.check == "harness-panic" || f.check == "harness-abort" || f.check == "flaky" {
                    inconclusive(&format!("harness problem in layout {}: {} {}", r.id, f.check, f.detail));
                }
                if f.detail.contains("ADAPTER-BUG") {
                    inconclusive(&format!("adapter bug in layout {}: {}", r.id, f.detail));
                }
                violations.push(Violation {
                    sig: format!("{}/{}", f.check, class_of(l, &f.case)),
                    summary: format!("{} [{}] {}: {}\n{}", prop, profile, f.check, f.detail, render_layout(l, &ro)),
                    replay: json!({"kind": "behaviour", "layout": l, "source": render_layout(l, &ro), "case": f.case, "check": f.check, "detail": f.detail, "profile": profile, "shrunk_inputs": f.shrunk}),
                });
            }
            if samples.len() < 6 && !r.samples.is_empty() && (r.id % 7 == 0 || samples.is_empty()) {
                samples.push(json!({"declaration": render_layout(l, &ro), "case": r.samples[0], "profile": profile}));
            }
        }
    }
    // cross-profile digests (C16, and a free extra for every property run in several profiles)
    let mut digest_compared = 0u64;
    if out.results.len() >= 2 {
        let base = &out.results[0];
        for other in &out.results[1..] {
            let m: BTreeMap<usize, &LayoutResult> = other.1.iter().map(|r| (r.id, r)).collect();
            for r in &base.1 {
                if let Some(o) = m.get(&r.id) {
                    digest_compared += 1;
                    if r.failure.is_none() && o.failure.is_none() && (r.digest != o.digest || r.evaluations != o.evaluations) {
                        let l = by_id[&r.id];
                        violations.push(Violation {
                            sig: format!("profile-digest-differs/{}", base_class(l.base_bits)),
                            summary: format!(
                                "{}: results differ between profile {} (digest {}, {} cases) and {} (digest {}, {} cases)\n{}",
                                prop,
                                base.0,
                                r.digest,
                                r.evaluations,
                                other.0,
                                o.digest,
                                o.evaluations,
                                render_layout(l, &ro)
                            ),
                            replay: json!({"kind": "behaviour-digest", "layout": l, "source": render_layout(l, &ro), "profiles": [base.0, other.0], "seed": rc.seed, "cases": cfg.cases}),
                        });
                    }
                }
            }
        }
    }
    for (_, l) in layouts {
        for f in &l.fields {
            *classes.entry(field_class(l, f)).or_insert(0) += 1;
        }
    }
    let aux: usize = layouts.iter().map(|(_, l)| l.enums.len() + l.inners.len()).sum();
    let live = layouts.len() as u64 - skipped / out.results.len().max(1) as u64;
    if (live as usize) * 2 < layouts.len() {
        inconclusive(&format!("generator bug: only {} of {} layouts were eligible for {}", live, layouts.len(), prop));
    }
    if samples.is_empty() {
        for (profile, results) in &out.results {
            for r in results {
                if let Some(s) = r.samples.first() {
                    samples.push(json!({"declaration": render_layout(by_id[&r.id], &ro), "case": s, "profile": profile}));
                    break;
                }
            }
        }
    }
    let coverage = json!({
        "programs": layouts.len() + aux,
        "declarations": layouts.len(),
        "evaluations": evaluations,
        "distinct_nontrivial": nontrivial,
        "rule": rule_text(prop),
        "samples": samples,
        "exhaustive_layouts": exhaustive_layouts,
        "exhaustive": false,
        "layouts_without_eligible_field": skipped,
        "case_kinds": kinds,
        "template_classes": classes.len(),
        "template_class_histogram": classes,
        "profiles": out.results.iter().map(|r| r.0.clone()).collect::<Vec<_>>(),
        "digests_compared_across_profiles": digest_compared,
        "cases_per_layout": cfg.cases,
        "build_s": (out.build_s * 10.0).round() / 10.0,
        "run_s": (out.run_s * 10.0).round() / 10.0,
        "uncompilable_valid_declarations": out.uncompilable.len(),
    });
    Outcome {
        violations,
        coverage,
        assumptions: vec![
            "rustc/cargo 1.95 and arbitrary-int 1.3.0 (UInt::new, value) are trusted".into(),
            "the reference model (engine/model) and the generated adapters are trusted; every adapter conversion uses only uN::new, .value(), `as` and its own variant<->discriminant match".into(),
            "held on everything explored: sampled declarations and inputs, exhaustive only where stated".into(),
        ],
    }
}

/// Program-level shrinking of up to three violation groups (one per signature): greedy structural
/// reduction of the declaration, re-running the level-2 search (same seed) on every candidate.
pub fn shrink_violations(rc: &RunCtx, cfg: &BConfig, o: &mut Outcome) {
    if std::env::var("BBV_NO_SHRINK").is_ok() {
        return;
    }
    let ro = RenderOpts::default();
    let mut done: std::collections::BTreeSet<String> = Default::default();
    let t0 = std::time::Instant::now();
    for v in o.violations.iter_mut() {
        if v.replay["kind"] != "behaviour" || v.replay["case"].is_null() {
            continue;
        }
        if done.len() >= 3 || done.contains(&v.sig) || t0.elapsed().as_secs() > 150 {
            continue;
        }
        done.insert(v.sig.clone());
        let layout: Layout = match serde_json::from_value(v.replay["layout"].clone()) {
            Ok(l) => l,
            Err(_) => continue,
        };
        let check = v.replay["check"].as_str().unwrap_or("").to_string();
        let profile: &'static str = match v.replay["profile"].as_str() {
            Some("release") => "release",
            Some("checked") => "checked",
            _ => "dev",
        };
        let orig_valid = rules::layout_verdict(&layout).is_valid();
        let cfg1 = BConfig { emit: cfg.emit.clone(), profiles: vec![profile], cases: cfg.cases, max_ops: cfg.max_ops, exh_budget: cfg.exh_budget, ncrates: 1, tolerant: true };
        let mut best: Option<rt::run::FailOut> = None;
        let (small, steps, log) = crate::shrink::reduce(&layout, 40, |cand| {
            if t0.elapsed().as_secs() > 170 {
                return false;
            }
            if rules::layout_verdict(cand).is_valid() != orig_valid {
                return false;
            }
            let out = run_corpus(rc, &cfg1, &[(0, cand.clone())], "s", &[], None);
            for (_, rs) in &out.results {
                for r in rs {
                    if let Some(f) = &r.failure {
                        if f.check == check {
                            best = Some(f.clone());
                            return true;
                        }
                    }
                }
            }
            false
        });
        if let Some(f) = best {
            v.replay["original_layout"] = v.replay["layout"].clone();
            v.replay["original_case"] = v.replay["case"].clone();
            v.replay["layout"] = json!(small);
            v.replay["source"] = json!(render_layout(&small, &ro));
            v.replay["case"] = json!(f.case);
            v.replay["detail"] = json!(f.detail);
            v.replay["program_shrinking"] = json!({"candidates_compiled": steps, "accepted_steps": log});
            v.summary = format!("{} [{}] {}: {}\n{}(program reduced in {} compiled candidates)", rc.prop, profile, f.check, f.detail, render_layout(&small, &ro), steps);
        }
    }
}
