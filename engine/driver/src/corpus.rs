//! Corpora of rule-valid declarations per property: a seed-independent systematic part that hits
//! every template branch and boundary, plus a random part drawn from the choice-sequence generator.

use crate::common::Tier;
use crate::gen::*;
use model::*;

pub const NATIVE: [u32; 5] = [8, 16, 32, 64, 128];
/// storage-1, smallest exposed width of each storage class, and a few interior widths
pub const SYS_ARB: [u32; 16] = [1, 2, 3, 7, 9, 12, 15, 17, 24, 31, 33, 48, 63, 65, 100, 127];

pub fn sys_bases(tier: Tier) -> Vec<u32> {
    let mut v: Vec<u32> = NATIVE.to_vec();
    match tier {
        Tier::Quick => v.extend_from_slice(&SYS_ARB),
        Tier::Thorough => v.extend((1..=127).filter(|b| !is_native_width(*b))),
    }
    v
}

pub fn fld(name: &str, lo: u32, w: u32, ty: FieldTy, access: Access) -> Field {
    let is_bool = matches!(ty, FieldTy::Bool);
    Field {
        name: name.to_string(),
        kw_bit: is_bool,
        list: false,
        ranges: vec![if is_bool { Rng::bit(lo) } else { Rng::new(lo, lo + w - 1) }],
        array: None,
        ty,
        access,
        arg_order: 0,
                opt_path: 0,
                huge: None,
                zero_pad: false,
    }
}

pub fn lay(bits: u32, fields: Vec<Field>) -> Layout {
    Layout { name: "S".into(), base_bits: bits, default: None, default_colon: false, debug: false, fields, enums: vec![], inners: vec![], debug_first: false, vis: 0, decoys: 0, derives: 0, handwritten: 0, macro_wrap: 0 }
}

pub fn uty(w: u32) -> FieldTy {
    if is_native_width(w) {
        FieldTy::UNat { bits: w }
    } else {
        FieldTy::UArb { bits: w, qualified: false }
    }
}

fn positions(b: u32, w: u32) -> Vec<u32> {
    let mut p = vec![0, (b - w) / 2, b - w];
    if b - w >= 2 {
        p.push(1);
        p.push(b - w - 1);
    }
    p.sort();
    p.dedup();
    p
}

fn sys_widths(b: u32, tier: Tier) -> Vec<u32> {
    let mut w: Vec<u32> = match tier {
        Tier::Quick => vec![1, 2, 7, 8, 9, 16, 17, 32, 33, 64, 65, 127, 128],
        Tier::Thorough => vec![1, 2, 3, 5, 7, 8, 9, 15, 16, 17, 24, 31, 32, 33, 48, 63, 64, 65, 96, 127, 128],
    };
    w.push(b);
    if b > 1 {
        w.push(b - 1);
    }
    w.retain(|x| *x <= b && *x >= 1);
    w.sort();
    w.dedup();
    w
}

/// one layout per (base, width): the same unsigned type at bit 0 / interior / ending on the top bit
/// (fields overlap, which the macro allows)
pub fn sys_scalars(tier: Tier, access: Access) -> Vec<Layout> {
    let mut out = Vec::new();
    for b in sys_bases(tier) {
        for w in sys_widths(b, tier) {
            let mut fields = Vec::new();
            for (k, lo) in positions(b, w).iter().enumerate() {
                if w == 1 {
                    let mut bf = fld(&format!("b{}", k), *lo, 1, FieldTy::Bool, access);
                    if k % 2 == 1 {
                        // the same bool written as a one-bit range: bits(n..=n)
                        bf.kw_bit = false;
                        bf.ranges = vec![Rng::new(*lo, *lo)];
                    }
                    fields.push(bf);
                }
                fields.push(fld(&format!("f{}", k), *lo, w, uty(w), access));
            }
            out.push(lay(b, fields));
        }
    }
    out
}

pub fn small_enum(name: &str, bits: u32, plain: bool) -> EnumDecl {
    let n = 1u128 << bits;
    let mut variants = Vec::new();
    if plain {
        for d in 0..n {
            variants.push(Variant { name: format!("V{}", d), disc: Disc::Lit { value: d, radix: 10, underscore: false }, cfg: Cfg::None, style: 0 });
        }
        EnumDecl { name: name.into(), bits, variants, exhaustive: Exh::True, colon: false, qualified: false, args_swapped: false }
    } else {
        let m = n - 1;
        let mut ds = vec![0u128, m, m >> 1];
        ds.sort();
        ds.dedup();
        if ds.len() as u128 == n {
            ds.pop();
        }
        for (k, d) in ds.iter().enumerate() {
            variants.push(Variant { name: format!("V{}", k), disc: Disc::Lit { value: *d, radix: 16, underscore: false }, cfg: Cfg::None, style: 0 });
        }
        EnumDecl { name: name.into(), bits, variants, exhaustive: Exh::False, colon: false, qualified: false, args_swapped: false }
    }
}

/// element types used in systematic array / list corpora: (type, width, enums needed)
fn elem_types() -> Vec<(FieldTy, u32, Option<EnumDecl>)> {
    vec![
        (FieldTy::Bool, 1, None),
        (uty(1), 1, None),
        (uty(3), 3, None),
        (uty(8), 8, None),
        (uty(12), 12, None),
        (FieldTy::INat { bits: 8 }, 8, None),
        (FieldTy::INat { bits: 16 }, 16, None),
        (FieldTy::Enum { idx: 0, option: false }, 2, Some(small_enum("E0", 2, true))),
        (FieldTy::Enum { idx: 0, option: true }, 3, Some(small_enum("E0", 3, false))),
    ]
}

/// contiguous arrays: stride = width (implicit / explicit) and stride > width, first element at 0 or
/// placed so that the last element ends exactly on the top bit, K = 2 and K = as many as fit
pub fn sys_arrays(tier: Tier) -> Vec<Layout> {
    let mut out = Vec::new();
    let bases: Vec<u32> = match tier {
        Tier::Quick => vec![8, 16, 32, 64, 128, 7, 9, 17, 31, 33, 63, 65, 127],
        Tier::Thorough => sys_bases(tier),
    };
    for b in bases {
        for (ty, w, en) in elem_types() {
            if 2 * w > b {
                continue;
            }
            for (gap, explicit) in [(0u32, false), (0, true), (1, true), (3, true)] {
                let stride = w + gap;
                let kmax = ((b - w) / stride + 1).min(128);
                if kmax < 2 {
                    continue;
                }
                for k in [2u32, kmax] {
                    for at_top in [false, true] {
                        let span = (k - 1) * stride + w;
                        if span > b {
                            continue;
                        }
                        let lo = if at_top { b - span } else { 0 };
                        let mut f = fld("a", lo, w, ty.clone(), Access::RW);
                        f.array = Some(ArrayDecl { count: k, stride: if explicit { Some(stride) } else { None }, colon: false });
                        let mut fields = vec![f];
                        // a neighbour field in the remaining space, if any
                        if lo >= 1 {
                            fields.push(fld("n", 0, lo.min(64), uty(lo.min(64)), Access::RW));
                        } else if span < b {
                            let nw = (b - span).min(64);
                            fields.push(fld("n", span, nw, uty(nw), Access::RW));
                        }
                        let mut l = lay(b, fields);
                        if let Some(e) = &en {
                            l.enums.push(e.clone());
                        }
                        out.push(l);
                    }
                    if k == kmax && kmax == 2 {
                        break;
                    }
                }
            }
        }
    }
    out.extend(sys_multi_arrays());
    dedup(out)
}

/// several array fields in one declaration whose strides differ: explicit next to implicit, in both orders
/// (state carried over from one field to the next shows only here)
pub fn sys_multi_arrays() -> Vec<Layout> {
    let mut out = Vec::new();
    for b in [16u32, 32, 64, 128, 24, 65] {
        let arr = |name: &str, lo: u32, w: u32, k: u32, stride: Option<u32>, ty: FieldTy| {
            let mut f = fld(name, lo, w, ty, Access::RW);
            f.array = Some(ArrayDecl { count: k, stride, colon: false });
            f
        };
        // [u3; 2] stride 5 at 0 (bits 0..=7), then [u2; 2] implicit at 8 (8..=11), then [bool; 2] implicit at 12
        out.push(lay(b, vec![arr("a", 0, 3, 2, Some(5), uty(3)), arr("b", 8, 2, 2, None, uty(2)), arr("c", 12, 1, 2, None, FieldTy::Bool)]));
        // implicit first, explicit later
        out.push(lay(b, vec![arr("a", 0, 2, 3, None, uty(2)), arr("b", 6, 1, 2, Some(4), uty(1)), arr("c", 12, 2, 2, None, uty(2))]));
        // a plain field between two arrays; the second array has a wider element than the first one's stride
        out.push(lay(b, vec![arr("a", 0, 1, 4, Some(2), FieldTy::Bool), fld("p", 8, 2, uty(2), Access::RW), arr("b", 10, 3, 2, None, uty(3))]));
    }
    out
}

fn dedup(v: Vec<Layout>) -> Vec<Layout> {
    let mut seen = std::collections::HashSet::new();
    v.into_iter().filter(|l| seen.insert(serde_json::to_string(l).unwrap())).collect()
}

/// range lists: 2..8 parts, ascending / descending / rotated order, several value types
pub fn sys_lists(tier: Tier) -> Vec<Layout> {
    let mut out = Vec::new();
    let bases: Vec<u32> = match tier {
        Tier::Quick => vec![8, 16, 32, 64, 128, 9, 17, 31, 33, 65, 127],
        Tier::Thorough => sys_bases(tier),
    };
    let types: Vec<(FieldTy, u32, Option<EnumDecl>)> = vec![
        (uty(5), 5, None),
        (uty(8), 8, None),
        (uty(12), 12, None),
        (uty(16), 16, None),
        (FieldTy::INat { bits: 8 }, 8, None),
        (FieldTy::INat { bits: 16 }, 16, None),
        (uty(33), 33, None),
        (uty(64), 64, None),
        (FieldTy::INat { bits: 64 }, 64, None),
        (FieldTy::Enum { idx: 0, option: false }, 2, Some(small_enum("E0", 2, true))),
        (FieldTy::Enum { idx: 0, option: true }, 9, Some(small_enum("E0", 9, false))),
        (FieldTy::Nested { idx: 0 }, 6, None),
    ];
    for b in bases {
        for (ty, w, en) in &types {
            for parts in [2u32, 3, 5, 8] {
                if parts > *w || w + parts - 1 > b {
                    continue;
                }
                // widths: first parts-1 get w/parts, last the rest; gaps of 1 bit between parts
                let base_w = w / parts;
                let mut widths: Vec<u32> = vec![base_w; parts as usize];
                *widths.last_mut().unwrap() += w - base_w * parts;
                let total_gap = b - w;
                let gap = (total_gap / parts).min(3);
                let mut ranges = Vec::new();
                let mut lo = 0;
                for pw in &widths {
                    ranges.push(Rng { lo, hi: lo + pw - 1, short: *pw == 1 });
                    lo += pw + gap;
                }
                // push the last part to the top bit
                let last = ranges.last_mut().unwrap();
                let lw = last.hi - last.lo;
                last.hi = b - 1;
                last.lo = b - 1 - lw;
                for order in 0..3 {
                    let mut r = ranges.clone();
                    match order {
                        0 => {}
                        1 => r.reverse(),
                        _ => {
                            let n = r.len();
                            r.rotate_left(n / 2);
                            r.swap(0, n - 1);
                        }
                    }
                    let f = Field { name: "l".into(), kw_bit: false, list: true, ranges: r, array: None, ty: ty.clone(), access: Access::RW, arg_order: 0, opt_path: 0, huge: None, zero_pad: false };
                    let mut l = lay(b, vec![f]);
                    if let Some(e) = en {
                        l.enums.push(e.clone());
                    }
                    if matches!(ty, FieldTy::Nested { .. }) {
                        l.inners.push(Layout { name: "I0".into(), ..lay(*w, vec![fld("g0", 0, 2, uty(2), Access::RW)]) });
                    }
                    out.push(l);
                }
            }
        }
        // list arrays: single-bit and multi-bit items in ascending / descending / shuffled order,
        // stride = span, stride > span and interleaving strides (elements never collide)
        if b >= 16 {
            let pats: Vec<(Vec<(u32, u32)>, Vec<u32>)> = vec![
                (vec![(3, 3), (1, 1), (2, 2), (0, 0)], vec![4, 8, 5]),
                (vec![(0, 0), (2, 2), (4, 4), (6, 6)], vec![1, 8, 9]),
                (vec![(6, 6), (4, 4), (2, 2), (0, 0)], vec![1, 8]),
                (vec![(4, 5), (1, 1)], vec![6, 8, 2]),
                (vec![(1, 1), (4, 5)], vec![6, 7]),
                (vec![(7, 7), (0, 2), (5, 5)], vec![8, 11]),
                (vec![(0, 0), (4, 5)], vec![8, 2]),
                (vec![(0, 0), (4, 4), (9, 9)], vec![2, 10]),
                (vec![(2, 3), (0, 1)], vec![4, 16]),
            ];
            for (items, strides) in &pats {
                let w: u32 = items.iter().map(|(lo, hi)| hi - lo + 1).sum();
                let top = items.iter().map(|(_, hi)| *hi).max().unwrap();
                let elem: u128 = items.iter().fold(0u128, |m, (lo, hi)| m | (mask(hi - lo + 1) << lo));
                for st in strides {
                    // largest K without collision that fits
                    let mut k = 1u32;
                    let mut m = elem;
                    while top + k * st < b && (elem << (k * st)) & m == 0 && k < 16 {
                        m |= elem << (k * st);
                        k += 1;
                    }
                    for kk in [2u32, k] {
                        if kk < 2 || kk > k {
                            continue;
                        }
                        for ty in [uty(w), FieldTy::INat { bits: w }] {
                            if matches!(ty, FieldTy::INat { .. }) && !is_native_width(w) {
                                continue;
                            }
                            let f = Field {
                                name: "la".into(),
                                kw_bit: false,
                                list: true,
                                ranges: items.iter().map(|(lo, hi)| Rng { lo: *lo, hi: *hi, short: lo == hi }).collect(),
                                array: Some(ArrayDecl { count: kk, stride: Some(*st), colon: false }),
                                ty,
                                access: Access::RW,
                                arg_order: 0,
                                opt_path: 0,
                huge: None,
                zero_pad: false,
                            };
                            out.push(lay(b, vec![f]));
                        }
                    }
                }
            }
        }
    }
    // several range-list fields of the same type that share their first range but differ later
    // (overlapping fields are legal); also the same next to a plain field at the same start
    for b in [16u32, 32, 64, 128, 24, 65] {
        let mk = |name: &str, rs: Vec<(u32, u32)>, ty: FieldTy| Field {
            name: name.into(),
            kw_bit: false,
            list: rs.len() > 1,
            ranges: rs.iter().map(|(lo, hi)| Rng { lo: *lo, hi: *hi, short: false }).collect(),
            array: None,
            ty,
            access: Access::RW,
            arg_order: 0,
            opt_path: 0,
            huge: None,
                zero_pad: false,
        };
        out.push(lay(
            b,
            vec![
                mk("p", vec![(0, 7)], uty(8)),
                mk("q", vec![(0, 3), (8, 11)], uty(8)),
                mk("r", vec![(0, 3), (12, 15)], uty(8)),
                mk("s", vec![(0, 3), (b - 4, b - 1)], uty(8)),
            ],
        ));
        out.push(lay(b, vec![mk("q", vec![(4, 5), (0, 1)], uty(4)), mk("r", vec![(4, 5), (2, 3)], uty(4)), mk("s", vec![(4, 5), (8, 9)], uty(4))]));
        let mut a1 = mk("a", vec![(0, 1), (4, 5)], uty(4));
        a1.array = Some(ArrayDecl { count: 2, stride: Some(8), colon: false });
        let mut a2 = mk("b", vec![(0, 1), (6, 7)], uty(4));
        a2.array = Some(ArrayDecl { count: 2, stride: Some(8), colon: false });
        out.push(lay(b, vec![a1, a2]));
    }
    out.extend(sys_wide_lists());
    dedup(out)
}

/// range lists with one entry longer than 64 bits (the width of the macro's own `usize`), in either position
pub fn sys_wide_lists() -> Vec<Layout> {
    let mut out = Vec::new();
    let mk = |rs: Vec<(u32, u32)>, w: u32| Field {
        name: "wl".into(),
        kw_bit: false,
        list: true,
        ranges: rs.iter().map(|(lo, hi)| Rng { lo: *lo, hi: *hi, short: false }).collect(),
        array: None,
        ty: uty(w),
        access: Access::RW,
        arg_order: 0,
        opt_path: 0,
        huge: None,
        zero_pad: false,
    };
    out.push(lay(128, vec![mk(vec![(0, 69), (100, 127)], 98), fld("g", 70, 30, uty(30), Access::RW)]));
    out.push(lay(128, vec![mk(vec![(120, 127), (0, 99)], 108), fld("g", 100, 20, uty(20), Access::RW)]));
    out.push(lay(128, vec![mk(vec![(0, 64), (66, 127)], 127)]));
    out.push(lay(128, vec![mk(vec![(63, 127), (0, 0)], 66), fld("g", 1, 62, uty(62), Access::RW)]));
    out.push(lay(100, vec![mk(vec![(30, 99), (0, 9)], 80), fld("g", 10, 20, uty(20), Access::RW)]));
    out.push(lay(97, vec![mk(vec![(0, 7), (16, 96)], 89)]));
    out
}

/// iN at bit 0 / interior / top for every base at least N wide; plain, array and list forms
pub fn sys_signed(tier: Tier) -> Vec<Layout> {
    let mut out = Vec::new();
    for b in sys_bases(tier) {
        for n in [8u32, 16, 32, 64, 128] {
            if n > b {
                continue;
            }
            let mut fields = Vec::new();
            for (k, lo) in positions(b, n).iter().enumerate() {
                fields.push(fld(&format!("s{}", k), *lo, n, FieldTy::INat { bits: n }, Access::RW));
            }
            out.push(lay(b, fields));
            if 2 * n + 3 <= b {
                let mut a = fld("sa", 1, n, FieldTy::INat { bits: n }, Access::RW);
                a.array = Some(ArrayDecl { count: 2, stride: Some(n + 1), colon: false });
                out.push(lay(b, vec![a]));
                let mut a2 = fld("sa", 0, n, FieldTy::INat { bits: n }, Access::RW);
                a2.array = Some(ArrayDecl { count: b / n, stride: None, colon: false });
                out.push(lay(b, vec![a2]));
            }
            if n + 2 <= b {
                // list: N-1 bits + 1 bit, in both orders (a piece one bit narrower than the type)
                for first_wide in [true, false] {
                    let wide = Rng::new(0, n - 2);
                    let one = Rng::bit(n);
                    let f = Field {
                        name: "sw".into(),
                        kw_bit: false,
                        list: true,
                        ranges: if first_wide { vec![wide.clone(), one.clone()] } else { vec![one, wide] },
                        array: None,
                        ty: FieldTy::INat { bits: n },
                        access: Access::RW,
                        arg_order: 0,
                        opt_path: 0,
                        huge: None,
                zero_pad: false,
                    };
                    out.push(lay(b, vec![f]));
                }
                // list: high half first, one bit gap, ends below the top bit
                let h = n / 2;
                let f = Field {
                    name: "sl".into(),
                    kw_bit: false,
                    list: true,
                    ranges: vec![Rng::new(h + 1, n), Rng::new(0, h - 1)],
                    array: None,
                    ty: FieldTy::INat { bits: n },
                    access: Access::RW,
                    arg_order: 0,
                opt_path: 0,
                huge: None,
                zero_pad: false,
                };
                out.push(lay(b, vec![f]));
            }
        }
    }
    out
}

/// enum / Option<enum> / nested-bitfield fields of every width class
pub fn sys_custom(tier: Tier) -> Vec<Layout> {
    let mut out = Vec::new();
    let bases: Vec<u32> = match tier {
        Tier::Quick => vec![8, 16, 32, 64, 128, 7, 9, 17, 33, 65, 127],
        Tier::Thorough => sys_bases(tier),
    };
    let enum_w: Vec<u32> = vec![1, 2, 3, 4, 5, 6, 7, 8, 9, 12, 15, 16, 17, 24, 31, 32, 33, 48, 63, 64];
    let nested_w: Vec<u32> = vec![1, 3, 7, 8, 9, 15, 16, 17, 31, 32, 33, 63, 64, 65, 100, 127, 128];
    for b in bases {
        for w in &enum_w {
            if *w > b {
                continue;
            }
            for plain in [true, false] {
                if plain && *w > 6 {
                    continue;
                }
                let e = small_enum("E0", *w, plain);
                let mut fields = Vec::new();
                for (k, lo) in positions(b, *w).iter().enumerate() {
                    let mut f = fld(&format!("e{}", k), *lo, *w, FieldTy::Enum { idx: 0, option: !plain }, Access::RW);
                    if *w == 1 {
                        f.kw_bit = k % 2 == 0;
                        f.ranges = vec![if f.kw_bit { Rng::bit(*lo) } else { Rng::new(*lo, *lo) }];
                    }
                    fields.push(f);
                }
                let mut l = lay(b, fields);
                l.enums.push(e.clone());
                out.push(l);
                if 2 * w <= b {
                    let mut a = fld("ea", b - 2 * w, *w, FieldTy::Enum { idx: 0, option: !plain }, Access::RW);
                    a.array = Some(ArrayDecl { count: 2, stride: None, colon: false });
                    let mut l = lay(b, vec![a]);
                    l.enums.push(e.clone());
                    out.push(l);
                }
                // arrays starting on a byte boundary whose stride is not a multiple of 8 (or of the width)
                for (lo, gap) in [(0u32, 1u32), (8, 4), (0, 3)] {
                    let stride = w + gap;
                    if lo + 2 * stride + w <= b {
                        let k = ((b - lo - w) / stride + 1).min(5);
                        let mut a = fld("es", lo, *w, FieldTy::Enum { idx: 0, option: !plain }, Access::RW);
                        a.array = Some(ArrayDecl { count: k, stride: Some(stride), colon: gap == 4 });
                        let mut l = lay(b, vec![a]);
                        l.enums.push(e.clone());
                        out.push(l);
                    }
                }
            }
        }
        for w in &nested_w {
            if *w > b {
                continue;
            }
            // every third width: not a bitfield but a hand-written newtype with the two conversions
            let mut inner = Layout { name: "I0".into(), ..lay(*w, vec![fld("g0", w - 1, 1, FieldTy::Bool, Access::RW)]) };
            if w % 3 == 0 {
                inner.handwritten = 1 + ((w / 3) % 2) as u8;
                inner.fields.clear();
            }
            let mut fields = Vec::new();
            for (k, lo) in positions(b, *w).iter().enumerate() {
                fields.push(fld(&format!("n{}", k), *lo, *w, FieldTy::Nested { idx: 0 }, Access::RW));
            }
            let mut l = lay(b, fields);
            l.inners.push(inner.clone());
            out.push(l);
            for (lo, gap) in [(0u32, 1u32), (8, 4), (0, 0)] {
                let stride = w + gap;
                if lo + 2 * stride + w <= b {
                    let k = ((b - lo - w) / stride + 1).min(5);
                    let mut a = fld("ns", lo, *w, FieldTy::Nested { idx: 0 }, Access::RW);
                    a.array = Some(ArrayDecl { count: k, stride: if gap == 0 { None } else { Some(stride) }, colon: false });
                    let mut l = lay(b, vec![a]);
                    l.inners.push(inner.clone());
                    out.push(l);
                }
            }
        }
    }
    out
}

/// declarations with *many* fields (up to one per bit of a 128-bit base): counts beyond anything the random
/// generator produces (it stops at 5-12 fields). Field k is `f<k>`, so names with two- and three-digit indices
/// occur; every other declaration lists its fields from the top bit downwards.
pub fn sys_many_fields(access: Access) -> Vec<Layout> {
    let mut out = Vec::new();
    for (b, w) in [(128u32, 1u32), (64, 1), (33, 1), (17, 1), (9, 1), (127, 1), (128, 4), (64, 2), (100, 5), (32, 1), (65, 5)] {
        let n = b / w;
        for rev in [false, true] {
            let mut fields = Vec::new();
            for k in 0..n {
                let lo = if rev { (n - 1 - k) * w } else { k * w };
                let ty = if w == 1 && k % 2 == 0 { FieldTy::Bool } else { uty(w) };
                fields.push(fld(&format!("f{}", k), lo, w, ty, access));
            }
            out.push(lay(b, fields));
        }
    }
    // mixed widths until the base is full (widths cycle), 128- and 64-bit bases and an arbitrary one
    for b in [128u32, 64, 90] {
        let cyc = [1u32, 2, 3, 5, 8, 1, 4, 16, 7];
        let mut fields = Vec::new();
        let mut lo = 0;
        let mut k = 0;
        while lo < b {
            let w = cyc[k % cyc.len()].min(b - lo);
            let ty = if w == 1 && k % 3 == 0 { FieldTy::Bool } else if w == 8 && k % 2 == 0 { FieldTy::INat { bits: 8 } } else { uty(w) };
            fields.push(fld(&format!("f{}", k), lo, w, ty, access));
            lo += w;
            k += 1;
        }
        out.push(lay(b, fields));
    }
    out
}

/// range lists with many entries (16, 32, 64 single bits; 16 four-bit runs), ascending / descending / permuted,
/// unsigned and signed; and list arrays whose elements have 8 entries each
pub fn sys_long_lists() -> Vec<Layout> {
    let mut out = Vec::new();
    let mk = |name: &str, rs: Vec<(u32, u32)>, ty: FieldTy, arr: Option<ArrayDecl>| Field {
        name: name.into(),
        kw_bit: false,
        list: true,
        ranges: rs.iter().map(|(lo, hi)| Rng { lo: *lo, hi: *hi, short: lo == hi }).collect(),
        array: arr,
        ty,
        access: Access::RW,
        arg_order: 0,
        opt_path: 0,
        huge: None,
        zero_pad: false,
    };
    // (base, number of entries, entry width, distance between entry starts, first start)
    for (b, n, ew, dist, first) in [(64u32, 16u32, 1u32, 4u32, 0u32), (32, 16, 1, 2, 1), (128, 32, 1, 4, 3), (128, 64, 1, 2, 0), (128, 64, 1, 2, 1), (128, 16, 4, 8, 0), (100, 32, 1, 3, 2), (65, 16, 2, 4, 1), (128, 8, 8, 16, 8), (64, 32, 1, 2, 0), (64, 16, 1, 1, 5), (32, 8, 1, 1, 3), (128, 32, 1, 1, 40), (128, 64, 1, 1, 64), (24, 8, 1, 1, 9), (16, 8, 1, 1, 8)] {
        let w = n * ew;
        let asc: Vec<(u32, u32)> = (0..n).map(|k| (first + k * dist, first + k * dist + ew - 1)).collect();
        if asc.last().unwrap().1 >= b {
            continue;
        }
        let mut desc = asc.clone();
        desc.reverse();
        // a fixed permutation: k -> k * 7 mod n (n is a power of two, 7 is odd)
        let perm: Vec<(u32, u32)> = (0..n).map(|k| asc[((k * 7 + 3) % n) as usize]).collect();
        let used: u128 = asc.iter().fold(0u128, |m, (lo, hi)| m | (mask(hi - lo + 1) << lo));
        for (o, rs) in [asc, desc, perm].into_iter().enumerate() {
            let mut tys = vec![uty(w)];
            if is_native_width(w) {
                tys.push(FieldTy::INat { bits: w });
            }
            for ty in tys {
                let mut fields = vec![mk("ll", rs.clone(), ty, None)];
                // a neighbour in the lowest free run (so that untouched bits are observable through a getter too)
                let free = !used & mask(b);
                if free != 0 {
                    let lo = free.trailing_zeros();
                    let mut len = 0;
                    while lo + len < b && (free >> (lo + len)) & 1 == 1 && len < 64 {
                        len += 1;
                    }
                    fields.push(fld("nb", lo, len, uty(len), Access::RW));
                }
                if o == 2 {
                    fields.reverse();
                }
                out.push(lay(b, fields));
            }
        }
    }
    // list arrays: 8 single-bit entries per element, two elements interleaving (stride 1), four-element
    // version with 4 entries, and 16 entries per element at stride 64
    let ev8: Vec<(u32, u32)> = (0..8).map(|k| (2 * k, 2 * k)).collect();
    let mut od8 = ev8.clone();
    od8.reverse();
    for b in [16u32, 32, 64, 128, 17, 100] {
        out.push(lay(b, vec![mk("la", ev8.clone(), uty(8), Some(ArrayDecl { count: 2, stride: Some(1), colon: false }))]));
        out.push(lay(b, vec![mk("la", od8.clone(), FieldTy::INat { bits: 8 }, Some(ArrayDecl { count: 2, stride: Some(1), colon: false }))]));
    }
    let q4: Vec<(u32, u32)> = (0..4).map(|k| (4 * k, 4 * k)).collect();
    for b in [16u32, 64, 128, 23] {
        out.push(lay(b, vec![mk("la", q4.clone(), uty(4), Some(ArrayDecl { count: 4, stride: Some(1), colon: false }))]));
    }
    // more than 64 entries in one list: 100 and 128 single bits (descending), and four multi-bit entries followed by
    // 66 single bits, ascending and with the multi-bit entries last
    {
        let hundred: Vec<(u32, u32)> = (0..100).map(|k| (k, k)).collect();
        let mut rev128: Vec<(u32, u32)> = (0..128).map(|k| (k, k)).collect();
        rev128.reverse();
        out.push(lay(128, vec![mk("ll", hundred.clone(), uty(100), None), fld("nb", 100, 28, uty(28), Access::RW)]));
        out.push(lay(100, vec![mk("ll", hundred, uty(100), None)]));
        out.push(lay(128, vec![mk("ll", rev128.clone(), uty(128), None)]));
        out.push(lay(128, vec![mk("ll", rev128, FieldTy::INat { bits: 128 }, None)]));
        let mut mixed: Vec<(u32, u32)> = (0..4).map(|k| (8 * k, 8 * k + 3)).collect(); // 4 x 4 bits at 0, 8, 16, 24
        mixed.extend((0..66).map(|k| (40 + k, 40 + k)));
        out.push(lay(128, vec![mk("ll", mixed.clone(), uty(82), None), fld("nb", 4, 4, uty(4), Access::RW)]));
        let mut mixed2 = mixed.clone();
        mixed2.rotate_left(4);
        out.push(lay(128, vec![mk("ll", mixed2, uty(82), None), fld("nb", 106, 22, uty(22), Access::RW)]));
        let mut m3: Vec<(u32, u32)> = (0..70).map(|k| (k, k)).collect();
        m3.push((80, 89));
        out.push(lay(127, vec![mk("ll", m3, uty(80), None)]));
    }
    let e16: Vec<(u32, u32)> = (0..16).map(|k| (4 * k + 1, 4 * k + 1)).collect();
    out.push(lay(128, vec![mk("la", e16.clone(), uty(16), Some(ArrayDecl { count: 2, stride: Some(64), colon: false }))]));
    out.push(lay(128, vec![mk("la", e16, FieldTy::INat { bits: 16 }, Some(ArrayDecl { count: 3, stride: Some(1), colon: false }))]));
    out
}

/// bitfields nested three and four levels deep (the random generator nests once), native and arbitrary bases,
/// with an enum at the innermost level; `debug` on every level when asked for
pub fn sys_deep_nesting(debug: bool) -> Vec<Layout> {
    let mut out = Vec::new();
    for (widths, pos) in [([8u32, 16, 32, 64], [4u32, 8, 16]), ([7, 13, 27, 65], [3, 9, 30]), ([9, 17, 33, 128], [8, 16, 95]), ([3, 8, 24, 32], [5, 16, 8])] {
        // innermost: an enum in the low two bits, a bool on the top bit
        let e = small_enum("L3E", 2, true);
        let mut l3 = lay(widths[0], vec![fld("e", 0, 2, FieldTy::Enum { idx: 0, option: false }, Access::RW), fld("t", widths[0] - 1, 1, FieldTy::Bool, Access::RW)]);
        l3.name = "L3".into();
        l3.enums.push(e);
        l3.debug = debug;
        let mut l2 = lay(widths[1], vec![fld("lo", 0, pos[0], uty(pos[0]), Access::RW), fld("in3", pos[0], widths[0], FieldTy::Nested { idx: 0 }, Access::RW)]);
        l2.name = "L2".into();
        l2.inners.push(l3);
        l2.debug = debug;
        let mut l1 = lay(widths[2], vec![fld("in2", pos[1], widths[1], FieldTy::Nested { idx: 0 }, Access::RW), fld("b0", 0, 1, FieldTy::Bool, Access::RW)]);
        l1.name = "L1".into();
        l1.inners.push(l2.clone());
        l1.debug = debug;
        // three levels: the outer struct holds L2 directly
        let mut o3 = lay(widths[2], vec![fld("n", pos[1], widths[1], FieldTy::Nested { idx: 0 }, Access::RW), fld("x", 0, pos[1].min(8), uty(pos[1].min(8)), Access::RW)]);
        o3.inners.push(l2);
        o3.debug = debug;
        out.push(o3);
        // four levels; the nested field also as a two-element array when it fits
        let mut o4 = lay(widths[3], vec![fld("n", pos[2], widths[2], FieldTy::Nested { idx: 0 }, Access::RW), fld("x", 0, pos[2].min(64), uty(pos[2].min(64)), Access::RW)]);
        o4.inners.push(l1.clone());
        o4.debug = debug;
        out.push(o4);
        if !debug && 2 * widths[2] <= widths[3] {
            let mut a = fld("na", 0, widths[2], FieldTy::Nested { idx: 0 }, Access::RW);
            a.array = Some(ArrayDecl { count: 2, stride: None, colon: false });
            let mut oa = lay(widths[3], vec![a]);
            oa.inners.push(l1);
            out.push(oa);
        }
    }
    out
}

/// a field `x` next to a field named like a companion of it (`x_raw`, `x_mask`, `try_with_x`, `is_x`, ...): one
/// declaration per affix, `x` custom-typed (enum / Option<enum> / nested / hand-written type) or plain; the
/// companion lies over the same bits or elsewhere. All legal: the macro generates `x`, `with_x`, `set_x` only.
pub fn sys_name_pairs() -> Vec<Layout> {
    let mut out = Vec::new();
    let affixed: Vec<(bool, &str)> = NAME_SUFFIXES.iter().map(|a| (true, *a)).chain(NAME_PREFIXES.iter().map(|a| (false, *a))).collect();
    for (k, (suffix, a)) in affixed.iter().enumerate() {
        let b = [32u32, 16, 64, 24, 128][k % 5];
        let name = |base: &str| if *suffix { format!("{}{}", base, a) } else { format!("{}{}", a, base) };
        let mut l = lay(b, vec![]);
        l.enums.push(small_enum("E0", 2, k % 2 == 0));
        let mut inner = lay(4, vec![fld("g0", 0, 1, FieldTy::Bool, Access::RW)]);
        inner.name = "I0".into();
        inner.handwritten = (k % 3) as u8;
        if inner.handwritten != 0 {
            inner.fields.clear();
        }
        l.inners.push(inner);
        let acc = [Access::RW, Access::RW, Access::R, Access::W][k % 4];
        l.fields.push(fld("mode", 0, 2, FieldTy::Enum { idx: 0, option: k % 2 == 1 }, Access::RW));
        l.fields.push(fld(&name("mode"), if k % 2 == 0 { 0 } else { 2 }, 2, uty(2), acc));
        l.fields.push(fld("sub", 4, 4, FieldTy::Nested { idx: 0 }, Access::RW));
        l.fields.push(fld(&name("sub"), 4, 4, uty(4), acc));
        l.fields.push(fld("rx", 8, 1, FieldTy::Bool, if k % 3 == 0 { Access::R } else { Access::RW }));
        l.fields.push(fld(&name("rx"), 9, 1, FieldTy::Bool, Access::RW));
        let mut arr = fld("lane", 10, 2, uty(2), Access::RW);
        arr.array = Some(ArrayDecl { count: 2, stride: None, colon: false });
        l.fields.push(arr);
        l.fields.push(fld(&name("lane"), 14, 2, uty(2), acc));
        out.push(l);
    }
    out.into_iter().filter(|l| rules::api_name_collision(l).is_none()).collect()
}

/// fields named like the bindings the templates use for their own parameters and locals, as array (native and
/// arbitrary element type), range-list and scalar fields — independent of the seed (the naming layer of the random
/// generator draws such a name for about one declaration in twenty-five)
pub fn sys_internal_names() -> Vec<Layout> {
    let mut out = Vec::new();
    let names = ["index", "effective_index", "field_value", "value", "mask", "shift", "result", "one", "temp", "this", "other", "raw", "bits", "self_", "new_value", "clear_mask"];
    for (k, nm) in names.iter().enumerate() {
        let b = [32u32, 64, 128, 24, 16][k % 5];
        let other = names[(k + 1) % names.len()];
        // array of native elements, array of arbitrary-int elements with a gap, a scalar and (on wide bases) a list
        let mut a = fld(nm, 0, if b >= 32 { 8 } else { 4 }, uty(if b >= 32 { 8 } else { 4 }), Access::RW);
        a.array = Some(ArrayDecl { count: 2, stride: None, colon: false });
        let top = if b >= 32 { 16 } else { 8 };
        let mut fields = vec![a];
        if b >= 24 {
            let mut a2 = fld(other, top, 3, uty(3), Access::RW);
            a2.array = Some(ArrayDecl { count: 2, stride: Some(4), colon: false });
            fields.push(a2);
        }
        out.push(lay(b, fields));
        // the same names on scalar fields and on a signed / list field
        let mut fields = vec![fld(nm, 0, 4, uty(4), Access::RW), fld(other, 4, 1, FieldTy::Bool, Access::RW)];
        if b >= 32 {
            fields.push(Field { name: format!("{}2", nm), kw_bit: false, list: true, ranges: vec![Rng::new(8, 11), Rng::new(16, 19)], array: None, ty: FieldTy::INat { bits: 8 }, access: Access::RW, arg_order: 0, opt_path: 0, huge: None, zero_pad: false });
        }
        out.push(lay(b, fields));
    }
    out.into_iter().filter(|l| rules::api_name_collision(l).is_none()).collect()
}

fn random(p: &Profile, seed: u64, stream: u64, n: usize) -> Vec<Layout> {
    sample_choices(seed, stream, n, 320).iter().map(|w| build_layout(p, w)).collect()
}

fn prof(kinds: [u32; 7], shapes: [u32; 4]) -> Profile {
    Profile { kinds, shapes, ..Profile::general() }
}

pub fn corpus(prop: &str, tier: Tier, seed: u64) -> Vec<(usize, Layout)> {
    let nrand = tier.pick(768usize, 4800usize);
    let mut v: Vec<Layout> = Vec::new();
    match prop {
        "C01" => {
            v.extend(sys_scalars(tier, Access::R));
            v.extend(sys_many_fields(Access::R));
            let mut p = prof([3, 6, 4, 0, 0, 0, 0], [1, 0, 0, 0]);
            p.access = AccessMode::AllR;
            v.extend(random(&p, seed, 1, nrand / 2));
            p.access = AccessMode::AllRW;
            p.base = BaseMode::SmallBias;
            v.extend(random(&p, seed, 2, nrand / 2));
        }
        "C02" => {
            v.extend(sys_scalars(tier, Access::RW));
            let mut p = prof([3, 6, 4, 0, 0, 0, 0], [1, 0, 0, 0]);
            p.access = AccessMode::Mixed;
            p.w_twin = true;
            v.extend(random(&p, seed, 1, nrand / 2));
            p.base = BaseMode::SmallBias;
            v.extend(random(&p, seed, 2, nrand / 2));
            // every writable field kind and shape (signed, enum, nested, arrays, lists) as well
            let mut q = prof([2, 4, 3, 3, 2, 2, 2], [5, 2, 3, 1]);
            q.access = AccessMode::Mixed;
            q.w_twin = true;
            v.extend(random(&q, seed, 3, nrand / 2));
            v.extend(sys_signed(Tier::Quick).into_iter().step_by(3));
            v.extend(sys_lists(Tier::Quick).into_iter().step_by(5));
            v.extend(sys_wide_lists());
            v.extend(sys_multi_arrays());
            v.extend(sys_many_fields(Access::RW));
            v.extend(sys_long_lists());
            v.extend(sys_deep_nesting(false));
            v.extend(sys_name_pairs());
            v.extend(sys_internal_names());
        }
        "C03" => {
            v.extend(sys_arrays(tier));
            let mut p = prof([2, 4, 3, 2, 2, 2, 1], [1, 5, 0, 2]);
            p.force_shape = Some(1);
            p.access = AccessMode::Mixed;
            p.w_twin = true;
            v.extend(random(&p, seed, 1, nrand / 2));
            p.base = BaseMode::SmallBias;
            v.extend(random(&p, seed, 2, nrand / 2));
            // arrays of range-list elements (explicit stride, any list order, interleaving)
            p.base = BaseMode::Any;
            p.force_shape = Some(3);
            p.shapes = [1, 1, 0, 6];
            v.extend(random(&p, seed, 3, nrand / 3));
            v.extend(sys_lists(Tier::Quick).into_iter().filter(|l| l.fields.iter().any(|f| f.is_array())));
            v.extend(sys_long_lists().into_iter().filter(|l| l.fields.iter().any(|f| f.is_array())));
            v.extend(sys_deep_nesting(false).into_iter().filter(|l| l.fields.iter().any(|f| f.is_array())));
            v.extend(sys_internal_names().into_iter().filter(|l| l.fields.iter().any(|f| f.is_array())));
        }
        "C04" => {
            v.extend(sys_lists(tier));
            v.extend(sys_long_lists());
            let mut p = prof([0, 5, 3, 2, 1, 1, 1], [1, 0, 4, 3]);
            p.force_shape = Some(2);
            p.access = AccessMode::Mixed;
            p.w_twin = true;
            v.extend(random(&p, seed, 1, nrand / 2));
            p.base = BaseMode::SmallBias;
            p.force_shape = Some(3);
            v.extend(random(&p, seed, 2, nrand / 2));
        }
        "C05" => {
            v.extend(sys_signed(tier));
            v.extend(sys_long_lists().into_iter().filter(|l| l.fields.iter().any(|f| matches!(f.ty, FieldTy::INat { .. }))));
            v.extend(sys_many_fields(Access::RW).into_iter().filter(|l| l.fields.iter().any(|f| matches!(f.ty, FieldTy::INat { .. }))));
            let mut p = prof([1, 1, 1, 8, 0, 0, 0], [4, 2, 2, 1]);
            p.force_kind = Some(3);
            p.access = AccessMode::Mixed;
            p.w_twin = true;
            v.extend(random(&p, seed, 1, nrand));
        }
        "C08" => {
            v.extend(sys_custom(tier));
            v.extend(sys_deep_nesting(false));
            v.extend(sys_name_pairs());
            for (k, fk) in [4usize, 5, 6].iter().enumerate() {
                let mut p = prof([1, 1, 0, 0, 4, 4, 3], [4, 2, 2, 1]);
                p.force_kind = Some(*fk);
                p.access = AccessMode::Mixed;
                p.w_twin = true;
                v.extend(random(&p, seed, 1 + k as u64, nrand / 3));
            }
        }
        "C12" => {
            let mut p = prof([3, 6, 4, 2, 1, 1, 1], [5, 2, 2, 1]);
            p.overlap = true;
            p.max_fields = 6;
            v.extend(random(&p, seed, 1, nrand / 2));
            p.base = BaseMode::SmallBias;
            v.extend(random(&p, seed, 2, nrand / 4));
            p.overlap = false;
            v.extend(random(&p, seed, 3, nrand / 4));
            // histories through write-only fields, observed through read-only twins over the same bits
            p.access = AccessMode::Mixed;
            p.w_twin = true;
            v.extend(random(&p, seed, 4, nrand / 4));
            // histories over many fields, long lists and deeply nested fields
            v.extend(sys_many_fields(Access::RW).into_iter().step_by(2));
            v.extend(sys_long_lists().into_iter().step_by(3));
            v.extend(sys_deep_nesting(false).into_iter().step_by(2));
        }
        "C06" => {
            // every base width, every default form; half of them with fields
            let words = sample_choices(seed, 6, 140 * 5, 320);
            let mut k = 0;
            for b in 1..=128u32 {
                for form in 0..5 {
                    let native = is_native_width(b);
                    if (form == 3 || form == 4) && !native {
                        // named constants: native bases only, except storage-class boundaries
                        if ![1u32, 7, 9, 15, 17, 31, 33, 63, 65, 127].contains(&b) {
                            continue;
                        }
                    }
                    if tier == Tier::Quick && !native && form == 2 && b % 3 != 0 {
                        continue;
                    }
                    let mut src = Src::new(&words[k % words.len()]);
                    k += 1;
                    let mut p = Profile::general();
                    p.default = DefaultMode::Never;
                    p.access = AccessMode::Mixed;
                    p.overlap = k % 4 == 0; // overlapping writable fields: no builder, everything else unchanged
                    let mut l = if k % 2 == 0 { build_layout_on(&p, &mut src, b) } else { lay(b, vec![]) };
                    if k % 2 == 1 && k % 3 == 0 {
                        // `debug` next to the default, in both argument orders
                        l.debug = true;
                        l.debug_first = k % 4 == 1;
                    }
                    let m = mask(b);
                    let val = match k % 5 {
                        0 => m,
                        1 => 1u128 << (b - 1),
                        2 => src.u128() & m & !rules::writable_mask(&l),
                        _ => src.u128() & m,
                    };
                    match form {
                        0 => {}
                        1 | 2 => {
                            l.default = Some(DefaultDecl { value: val, named_const: false, radix: [10u8, 16, 2, 110, 116, 102][k % 6], const_name: None });
                            l.default_colon = form == 2;
                        }
                        _ => {
                            l.default = Some(DefaultDecl { value: val, named_const: true, radix: 16, const_name: None });
                            l.default_colon = form == 4;
                        }
                    }
                    v.push(l);
                }
            }
            // default literals whose *text* could be mistaken for something else when reparsed: hex digits that
            // look like a radix prefix or a type suffix (0xb0, 0x1f32, 0xbeef64), `_` separators, and a named
            // constant called MAX
            for b in [16u32, 32, 64, 128, 24, 100] {
                for (val, radix) in [(0xbu128, 16u8), (0xb0, 16), (0xbbb, 16), (0x1f32, 16), (0xbeef64, 16), (0xf64, 16), (0x0b000b, 17), (0b1011, 3), (0o17, 8)] {
                    if val > mask(b) {
                        continue;
                    }
                    let mut l = lay(b, vec![fld("f", 0, 4, uty(4), Access::RW)]);
                    l.default = Some(DefaultDecl { value: val, named_const: false, radix, const_name: None });
                    l.default_colon = val % 2 == 0;
                    v.push(l);
                }
                let mut l = lay(b, vec![fld("f", 0, 4, uty(4), Access::RW)]);
                l.default = Some(DefaultDecl { value: 0x1234 & mask(b), named_const: true, radix: 16, const_name: Some("MAX".into()) });
                v.push(l);
            }
        }
        "C11" => {
            let mut p = prof([3, 6, 4, 2, 1, 1, 1], [5, 2, 2, 1]);
            p.base = BaseMode::ArbOnly;
            p.overlap = true;
            p.max_fields = 6;
            v.extend(random(&p, seed, 1, nrand / 2));
            p.overlap = false;
            p.need_builder = true;
            v.extend(random(&p, seed, 2, nrand / 2));
            // systematic: a field ending on bit N-1 for every storage-class boundary
            for b in [1u32, 2, 7, 9, 15, 17, 24, 31, 33, 63, 65, 127] {
                for w in [1u32, b.min(8), b] {
                    if w > b || (w == 128) {
                        continue;
                    }
                    let mut fields = vec![fld("t", b - w, w, uty(w), Access::RW)];
                    if b - w >= 1 {
                        fields.push(fld("lo", 0, (b - w).min(64), uty((b - w).min(64)), Access::RW));
                    }
                    v.push(lay(b, fields));
                }
            }
            v.extend(sys_many_fields(Access::RW).into_iter().filter(|l| !l.base_native()));
            v.extend(sys_long_lists().into_iter().filter(|l| !l.base_native()));
            v.extend(sys_deep_nesting(false).into_iter().filter(|l| !l.base_native()));
        }
        "C13" => {
            let mut p = prof([3, 6, 4, 2, 2, 2, 1], [5, 3, 2, 1]);
            p.need_builder = true;
            p.access = AccessMode::Mixed;
            p.max_fields = 6;
            v.extend(random(&p, seed, 1, nrand / 2));
            p.max_array = 128;
            p.default = DefaultMode::Always;
            p.access = AccessMode::MixedWithNone;
            v.extend(random(&p, seed, 2, nrand / 4));
            p.default = DefaultMode::Never;
            p.access = AccessMode::AllRW;
            v.extend(random(&p, seed, 3, nrand / 4));
            // systematic: arrays of one-bit elements covering whole native bases, no default
            for b in NATIVE {
                let mut a = fld("bits", 0, 1, FieldTy::Bool, Access::RW);
                a.array = Some(ArrayDecl { count: b, stride: None, colon: false });
                v.push(lay(b, vec![a]));
                let mut a = fld("nib", 0, 4, uty(4), Access::W);
                a.array = Some(ArrayDecl { count: b / 4, stride: None, colon: false });
                v.push(lay(b, vec![a]));
            }
            // strided arrays with gaps whose count * stride is exactly the base width: the gaps hold default
            // bits, or other fields written earlier / later in the builder chain
            for b in [8u32, 16, 32, 64, 128, 24, 12] {
                for (w, stride) in [(1u32, 2u32), (3, 4), (2, 8), (4, 8)] {
                    if b % stride != 0 || b / stride < 2 {
                        continue;
                    }
                    let k = b / stride;
                    for at0 in [true, false] {
                        let lo = if at0 { 0 } else { stride - w };
                        let mut a = fld("arr", lo, w, uty(w), Access::RW);
                        a.array = Some(ArrayDecl { count: k, stride: Some(stride), colon: false });
                        // gaps filled by a second array, declared before / after
                        let glo = if at0 { w } else { 0 };
                        let mut g = fld("gap", glo, stride - w, uty(stride - w), Access::W);
                        g.array = Some(ArrayDecl { count: k, stride: Some(stride), colon: false });
                        v.push(lay(b, vec![g.clone(), a.clone()]));
                        v.push(lay(b, vec![a.clone(), g]));
                        // gaps not covered by any field: they keep the default
                        let mut d = lay(b, vec![a]);
                        d.default = Some(DefaultDecl { value: mask(b), named_const: false, radix: 16, const_name: None });
                        v.push(d.clone());
                        d.default = Some(DefaultDecl { value: mask(b) / 5 * 3, named_const: false, radix: 10, const_name: None });
                        v.push(d);
                    }
                }
            }
            // complete coverage of arbitrary bases without default
            for b in [1u32, 7, 9, 17, 33, 65, 127] {
                v.push(lay(b, vec![fld("all", 0, b, uty(b), Access::RW)]));
            }
            // one field as wide as a native base (the builder's mask special case for 128 bits), with and
            // without default, unsigned and signed, also split into two halves
            for b in NATIVE {
                for ty in [uty(b), FieldTy::INat { bits: b }] {
                    let l = lay(b, vec![fld("all", 0, b, ty.clone(), Access::RW)]);
                    let mut d = l.clone();
                    d.default = Some(DefaultDecl { value: mask(b) / 3, named_const: false, radix: 16, const_name: None });
                    v.push(l);
                    v.push(d);
                }
                v.push(lay(b, vec![fld("lo", 0, b / 2, uty(b / 2), Access::W), fld("hi", b / 2, b / 2, uty(b / 2), Access::RW)]));
            }
            // long builder chains (up to 128 steps), long lists and deeply nested arguments; a default is added
            // where the writable fields do not cover the base
            for (k, mut l) in sys_many_fields(Access::RW).into_iter().chain(sys_long_lists()).chain(sys_deep_nesting(false)).chain(sys_internal_names()).enumerate() {
                if k % 3 == 1 {
                    for (j, f) in l.fields.iter_mut().enumerate() {
                        if j % 3 == 2 {
                            f.access = Access::W;
                        }
                    }
                }
                if k % 3 == 2 {
                    // read-only and accessor-less fields between the writable ones (they take no builder step)
                    for (j, f) in l.fields.iter_mut().enumerate() {
                        match j % 5 {
                            1 => f.access = Access::R,
                            3 => f.access = Access::None,
                            4 => f.access = Access::W,
                            _ => {}
                        }
                    }
                }
                if !rules::builder_expected(&l) || k % 4 == 0 {
                    let m = l.base_mask();
                    l.default = Some(DefaultDecl { value: if k % 2 == 0 { m } else { m / 7 * 5 }, named_const: false, radix: 16, const_name: None });
                }
                if rules::builder_expected(&l) {
                    v.push(l);
                }
            }
        }
        "C16" => {
            v.extend(sys_scalars(Tier::Quick, Access::RW).into_iter().filter(|l| l.fields.iter().any(|f| f.highest_bit() + 1 == l.base_bits)));
            v.extend(sys_arrays(Tier::Quick).into_iter().enumerate().filter(|(k, _)| k % 4 == 0).map(|(_, l)| l));
            v.extend(sys_lists(Tier::Quick).into_iter().enumerate().filter(|(k, _)| k % 4 == 0).map(|(_, l)| l));
            v.extend(sys_signed(Tier::Quick).into_iter().enumerate().filter(|(k, _)| k % 3 == 0).map(|(_, l)| l));
            let mut p = prof([3, 6, 4, 3, 1, 1, 1], [5, 3, 2, 1]);
            p.max_fields = 6;
            v.extend(random(&p, seed, 1, nrand / 2));
            p.overlap = true;
            v.extend(random(&p, seed, 2, nrand / 2));
            // lists that name a bit twice (accepted by the macro; what a write stores is left open, but every
            // operation must stay total and independent of the profile), reaching the top bit of the base
            for b in [8u32, 16, 32, 64, 128, 7, 24, 65] {
                let mk = |rs: Vec<(u32, u32)>, ty: FieldTy, arr: Option<ArrayDecl>| Field {
                    name: "dup".into(),
                    kw_bit: false,
                    list: true,
                    ranges: rs.iter().map(|(lo, hi)| Rng { lo: *lo, hi: *hi, short: false }).collect(),
                    array: arr,
                    ty,
                    access: Access::RW,
                    arg_order: 0,
                    opt_path: 0,
                    huge: None,
                    zero_pad: false,
                };
                if b >= 8 {
                    v.push(lay(b, vec![mk(vec![(b - 4, b - 1), (b - 2, b - 1)], uty(6), None)]));
                    v.push(lay(b, vec![mk(vec![(b - 2, b - 1), (b - 4, b - 1)], uty(6), None)]));
                    v.push(lay(b, vec![mk(vec![(0, 3), (2, 5)], uty(8), None), fld("hi", b - 2, 2, uty(2), Access::RW)]));
                    v.push(lay(b, vec![mk(vec![(0, b / 2 - 1), (0, b / 2 - 1)], uty(b / 2 * 2), None)]));
                }
                if b >= 16 {
                    v.push(lay(b, vec![mk(vec![(0, 1), (1, 2)], uty(4), Some(ArrayDecl { count: 2, stride: Some(b - 3), colon: false }))]));
                    v.push(lay(b, vec![mk(vec![(0, 3), (2, 5)], FieldTy::INat { bits: 8 }, None)]));
                }
            }
            v.extend(sys_many_fields(Access::RW).into_iter().step_by(3));
            v.extend(sys_long_lists().into_iter().step_by(3));
            v.extend(sys_deep_nesting(false).into_iter().step_by(3));
        }
        "C19" => {
            let mut p = prof([3, 5, 3, 3, 2, 2, 2], [5, 0, 2, 0]);
            p.debug = true;
            p.max_array = 0;
            p.max_fields = 12;
            p.overlap = true;
            p.access = AccessMode::AllRW;
            v.extend(random(&p, seed, 1, nrand / 2));
            p.access = AccessMode::AllR;
            p.overlap = false;
            v.extend(random(&p, seed, 2, nrand / 2));
            // no fields at all: `{:?}` is just the struct name
            for b in [8u32, 32, 128, 7, 65] {
                let mut l = lay(b, vec![]);
                l.debug = true;
                v.push(l.clone());
                l.default = Some(DefaultDecl { value: mask(b) / 3, named_const: false, radix: 16, const_name: None });
                l.debug_first = b % 2 == 0;
                v.push(l);
            }
            // many fields (one per bit of a 128-bit base), deeply nested debug bitfields
            for mut l in sys_many_fields(Access::R).into_iter().step_by(2).chain(sys_deep_nesting(true)) {
                if l.fields.iter().any(|f| f.is_array()) {
                    continue;
                }
                l.debug = true;
                v.push(l);
            }
            // a second readable view of exactly the same bits (alias under another name / as raw integer)
            let n0 = v.len();
            for k in (0..n0).step_by(3) {
                let mut l = v[k].clone();
                if let Some(f) = l.fields.first().cloned() {
                    let w = f.width();
                    let mut a = f.clone();
                    a.name = format!("alias_{}", f.name.trim_start_matches('_'));
                    if !matches!(a.ty, FieldTy::Bool) && w >= 1 {
                        a.ty = uty(w);
                    }
                    l.fields.push(a);
                    v.push(l);
                }
            }
        }
        _ => {
            v.extend(random(&Profile::general(), seed, 1, nrand));
        }
    }
    // never a declaration in which two generated methods would share a name (rustc rejects those itself)
    v.into_iter().filter(|l| rules::api_name_collision(l).is_none()).enumerate().collect()
}

/// bitenum corpus for C07: every N in 1..=64, exhaustive / non-exhaustive / conditional
pub fn enum_corpus(tier: Tier, seed: u64) -> Vec<(usize, EnumDecl)> {
    let mut v: Vec<EnumDecl> = Vec::new();
    let max_exh = tier.pick(8u32, 10u32);
    let reps = tier.pick(3usize, 24usize);
    let words = sample_choices(seed, 7, 64 * (reps + 1), 400);
    let mut k = 0;
    for n in 1..=64u32 {
        if n <= max_exh {
            let mut src = Src::new(&words[k]);
            k += 1;
            v.push(gen_enum(&mut src, "E", n, true));
        }
        for _ in 0..reps {
            let mut src = Src::new(&words[k % words.len()]);
            k += 1;
            v.push(gen_enum(&mut src, "E", n, false));
        }
        // systematic: single variant at 0 / at max; all but one value for small N
        let m = mask(n);
        for d in [0u128, m] {
            v.push(EnumDecl {
                name: "E".into(),
                bits: n,
                variants: vec![Variant { name: "Only".into(), disc: Disc::Lit { value: d, radix: 16, underscore: true }, cfg: Cfg::None, style: 0 }],
                exhaustive: if d == 0 { Exh::False } else { Exh::Omitted },
                colon: false,
                qualified: false,
                args_swapped: n % 2 == 1,
            });
        }
        if n <= 6 {
            for missing in [0u128, m, m / 2] {
                let variants = (0..=m)
                    .filter(|d| *d != missing)
                    .map(|d| Variant { name: format!("V{}", d), disc: Disc::Lit { value: d, radix: 10, underscore: false }, cfg: Cfg::None, style: 0 })
                    .collect::<Vec<_>>();
                if variants.is_empty() {
                    continue;
                }
                v.push(EnumDecl { name: "E".into(), bits: n, variants, exhaustive: Exh::False, colon: false, qualified: false, args_swapped: false });
            }
            // conditional with two variants sharing a discriminant under complementary cfgs, and all values listed
            let mut variants: Vec<Variant> = (0..=m)
                .map(|d| Variant { name: format!("V{}", d), disc: Disc::Lit { value: d, radix: 10, underscore: false }, cfg: if d % 2 == 1 { Cfg::Always } else { Cfg::None }, style: (d % 4) as u8 })
                .collect();
            variants.push(Variant { name: "Off".into(), disc: Disc::Lit { value: m, radix: 10, underscore: false }, cfg: Cfg::Never, style: 0 });
            v.push(EnumDecl { name: "E".into(), bits: n, variants: variants.clone(), exhaustive: Exh::Conditional, colon: false, qualified: false, args_swapped: false });
            // the disabled twin declared *before* the enabled variant with the same discriminant
            let off = variants.pop().unwrap();
            variants.insert(0, Variant { disc: Disc::Lit { value: m / 2, radix: 10, underscore: false }, ..off.clone() });
            variants.insert((m / 2) as usize + 1, Variant { name: "Off2".into(), disc: Disc::Lit { value: m / 2, radix: 16, underscore: false }, cfg: Cfg::Never, style: 0 });
            v.push(EnumDecl { name: "E".into(), bits: n, variants, exhaustive: Exh::Conditional, colon: false, qualified: false, args_swapped: false });
            // exactly 2^n variants listed, one of them compiled out (first / middle / last): the missing
            // value must come back as Err, not panic
            for off in [0u128, m / 2, m] {
                let variants: Vec<Variant> = (0..=m)
                    .map(|d| Variant {
                        name: format!("V{}", d),
                        disc: Disc::Lit { value: d, radix: 10, underscore: false },
                        cfg: if d == off { Cfg::Never } else if d % 3 == 1 { Cfg::Always } else { Cfg::None },
                        style: (d % 4) as u8,
                    })
                    .collect();
                if variants.iter().all(|x| x.cfg == Cfg::Never) {
                    continue;
                }
                v.push(EnumDecl { name: "E".into(), bits: n, variants, exhaustive: Exh::Conditional, colon: false, qualified: false, args_swapped: false });
            }
        }
    }
    // `exhaustive = conditional` keeps its Result-returning API whatever is listed: all 2^n values without any
    // cfg, all of them under enabled cfgs; and (native u8 storage, 256 variants) one of them compiled out
    for n in [1u32, 2, 3, 4, 6, 8] {
        let m = mask(n);
        for flavour in 0..2 {
            let variants: Vec<Variant> = (0..=m)
                .map(|d| Variant {
                    name: format!("V{}", d),
                    disc: Disc::Lit { value: d, radix: if d % 5 == 0 { 16 } else { 10 }, underscore: false },
                    cfg: if flavour == 1 && d % 2 == 0 { Cfg::Always } else { Cfg::None },
                    style: if flavour == 1 { (d % 4) as u8 } else { 0 },
                })
                .collect();
            v.push(EnumDecl { name: "E".into(), bits: n, variants, exhaustive: Exh::Conditional, colon: n % 2 == 0, qualified: false, args_swapped: false });
        }
        if n == 8 {
            for off in [0u128, 7, m / 2, m] {
                let variants: Vec<Variant> = (0..=m)
                    .map(|d| Variant {
                        name: format!("V{}", d),
                        disc: Disc::Lit { value: d, radix: 10, underscore: false },
                        cfg: if d == off { Cfg::Never } else { Cfg::None },
                        style: if d == off { (off % 4) as u8 } else { 0 },
                    })
                    .collect();
                v.push(EnumDecl { name: "E".into(), bits: n, variants, exhaustive: Exh::Conditional, colon: false, qualified: false, args_swapped: false });
            }
        }
    }
    // conditional enums in which *every* discriminant is declared twice under complementary cfgs (enabled one
    // first / second / alternating), 17-100 values: wherever generated code splits, sorts or de-duplicates the
    // arms, some pair sits on the boundary
    for (n, count) in [(5u32, 17u128), (5, 18), (5, 24), (6, 33), (6, 40), (7, 64), (7, 100), (9, 130)] {
        for flavour in 0..3u128 {
            let mut variants = Vec::new();
            for d in 0..count {
                let enabled_first = match flavour {
                    0 => true,
                    1 => false,
                    _ => d % 2 == 0,
                };
                let on = Variant { name: format!("On{}", d), disc: Disc::Lit { value: d, radix: 10, underscore: false }, cfg: if d % 3 == 0 { Cfg::Always } else { Cfg::None }, style: (d % 4) as u8 };
                let off = Variant { name: format!("Off{}", d), disc: Disc::Lit { value: d, radix: 16, underscore: false }, cfg: Cfg::Never, style: ((d + 1) % 4) as u8 };
                if enabled_first {
                    variants.push(on);
                    variants.push(off);
                } else {
                    variants.push(off);
                    variants.push(on);
                }
            }
            if flavour == 2 {
                variants.reverse();
            }
            v.push(EnumDecl { name: "E".into(), bits: n, variants, exhaustive: Exh::Conditional, colon: false, qualified: false, args_swapped: flavour == 1 });
        }
    }
    // large variant counts (the random enums stop at 12 variants, the exhaustive ones at 2^8): hundreds of
    // variants in arbitrary and native storage, declared in a scrambled order
    for (n, count, mult) in [(9u32, 300u128, 77u128), (10, 1000, 333), (16, 700, 1237), (32, 400, 10_000_019), (64, 300, 0x9E37_79B9_7F4A_7C15), (12, 2500, 1111), (7, 127, 29)] {
        let m = mask(n);
        let variants: Vec<Variant> = (0..count)
            .map(|k| Variant { name: format!("V{}", k), disc: Disc::Lit { value: (k * mult) & m, radix: [10u8, 16, 2, 8][(k % 4) as usize], underscore: k % 7 == 0 }, cfg: Cfg::None, style: 0 })
            .collect();
        v.push(EnumDecl { name: "E".into(), bits: n, variants, exhaustive: if n % 2 == 0 { Exh::False } else { Exh::Omitted }, colon: false, qualified: false, args_swapped: false });
    }
    {
        // exhaustive over 9 bits (512 variants, scrambled), and the same under `conditional` with one compiled out
        let m = mask(9);
        let variants: Vec<Variant> = (0..=m).map(|k| Variant { name: format!("V{}", k), disc: Disc::Lit { value: (k * 77) & m, radix: 10, underscore: false }, cfg: Cfg::None, style: 0 }).collect();
        v.push(EnumDecl { name: "E".into(), bits: 9, variants: variants.clone(), exhaustive: Exh::True, colon: false, qualified: false, args_swapped: false });
        let mut c = variants;
        c[300].cfg = Cfg::Never;
        c[17].cfg = Cfg::Always;
        v.push(EnumDecl { name: "E".into(), bits: 9, variants: c, exhaustive: Exh::Conditional, colon: false, qualified: false, args_swapped: true });
    }
    v.into_iter().enumerate().collect()
}
