//! C18: generated code is no_std, free of unsafe and documentation-clean.
//! R-crate: `#![no_std] #![deny(missing_docs)]` library of fully documented generated declarations,
//! checked on stable; the same crate is expanded with nightly `-Zunpretty=expanded`, tokenised with
//! proc_macro2, items carrying `#[automatically_derived]` (rustc's own nested derive expansion) are
//! dropped and no `unsafe` token (nor a `std` / `alloc` path) may remain.

use crate::cargo::{self, cargo};
use crate::common::*;
use crate::corpus::*;
use crate::emit::*;
use crate::gen::*;
use crate::vprops::{check_isolated_opts, V_PRELUDE};
use model::render::{render_enum, render_layout, RenderOpts};
use model::*;
use proc_macro2::{Delimiter, TokenStream, TokenTree};
use serde_json::{json, Value};
use std::collections::BTreeMap;
use std::str::FromStr;

#[derive(Default, Debug)]
pub struct Scan {
    pub items: u64,
    pub derived_items_dropped: u64,
    pub unsafe_tokens: Vec<String>,
    pub foreign_paths: Vec<String>,
    pub unsafe_in_dropped: u64,
}

fn count_ident(ts: TokenStream, name: &str) -> u64 {
    let mut n = 0;
    for t in ts {
        match t {
            TokenTree::Ident(i) if i == name => n += 1,
            TokenTree::Group(g) => n += count_ident(g.stream(), name),
            _ => {}
        }
    }
    n
}

fn item_text(item: &[TokenTree]) -> String {
    let ts: TokenStream = item.iter().cloned().collect();
    let s = ts.to_string();
    s.chars().take(300).collect()
}

/// split a module-level token stream into items and scan them
pub fn scan_stream(ts: TokenStream, module: &str, scan: &mut Scan, per_module: &mut BTreeMap<String, (u64, u64)>) {
    let toks: Vec<TokenTree> = ts.into_iter().collect();
    let mut i = 0;
    while i < toks.len() {
        // collect one item
        let start = i;
        let mut derived = false;
        // attributes
        while i + 1 < toks.len() {
            if let TokenTree::Punct(p) = &toks[i] {
                if p.as_char() == '#' {
                    // `#` `[...]` or `#` `!` `[...]`
                    let mut j = i + 1;
                    if let TokenTree::Punct(p2) = &toks[j] {
                        if p2.as_char() == '!' {
                            j += 1;
                        }
                    }
                    if let Some(TokenTree::Group(g)) = toks.get(j) {
                        if g.delimiter() == Delimiter::Bracket {
                            if count_ident(g.stream(), "automatically_derived") > 0 {
                                derived = true;
                            }
                            i = j + 1;
                            continue;
                        }
                    }
                }
            }
            break;
        }
        // item body: up to the first top-level `;` or brace group (whichever ends the item kind)
        let mut kw: Option<String> = None;
        let mut mod_name: Option<String> = None;
        let mut end = toks.len();
        let mut k = i;
        while k < toks.len() {
            match &toks[k] {
                TokenTree::Ident(id) => {
                    let s = id.to_string();
                    if kw.is_none() && ["const", "static", "type", "use", "extern", "struct", "enum", "union", "fn", "impl", "mod", "trait", "macro_rules"].contains(&s.as_str()) {
                        // `const fn` / `unsafe fn` / `extern "C" fn`: keep looking for the real keyword
                        let next_is_fn = matches!(toks.get(k + 1), Some(TokenTree::Ident(n)) if n == "fn");
                        if !(s == "const" && next_is_fn) {
                            kw = Some(s.clone());
                            if s == "mod" {
                                if let Some(TokenTree::Ident(n)) = toks.get(k + 1) {
                                    mod_name = Some(n.to_string());
                                }
                            }
                        }
                    }
                }
                TokenTree::Punct(p) if p.as_char() == ';' => {
                    end = k + 1;
                    break;
                }
                TokenTree::Group(g) if g.delimiter() == Delimiter::Brace => {
                    let ends_here = match kw.as_deref() {
                        Some("const") | Some("static") | Some("type") | Some("use") | Some("extern") => false,
                        _ => true,
                    };
                    if ends_here {
                        end = k + 1;
                        break;
                    }
                }
                _ => {}
            }
            k += 1;
        }
        let item = &toks[start..end.min(toks.len())];
        i = end.min(toks.len());
        if item.is_empty() {
            break;
        }
        if kw.as_deref() == Some("mod") {
            if let Some(TokenTree::Group(g)) = item.last() {
                if g.delimiter() == Delimiter::Brace {
                    let name = mod_name.clone().unwrap_or_else(|| module.to_string());
                    scan_stream(g.stream(), &name, scan, per_module);
                    continue;
                }
            }
        }
        scan.items += 1;
        let its: TokenStream = item.iter().cloned().collect();
        let n_unsafe = count_ident(its.clone(), "unsafe");
        let entry = per_module.entry(module.to_string()).or_insert((0, 0));
        entry.0 += 1;
        if derived {
            scan.derived_items_dropped += 1;
            scan.unsafe_in_dropped += n_unsafe;
            continue;
        }
        if n_unsafe > 0 {
            entry.1 += n_unsafe;
            scan.unsafe_tokens.push(format!("{}: {}", module, item_text(item)));
        }
        if count_ident(its.clone(), "std") + count_ident(its, "alloc") > 0 {
            scan.foreign_paths.push(format!("{}: {}", module, item_text(item)));
        }
    }
}

fn documented_source(l: &Layout) -> String {
    // missing_docs only looks at items reachable from outside: always plain `pub` here
    let l = &Layout { vis: 0, ..l.clone() };
    // every other declaration carries its field doc comments *after* the bit/bits attribute
    let after = l.fields.len() % 2 == 0;
    let ro = RenderOpts { docs: true, vis_pub: true, enum_derives: "#[derive(Debug, PartialEq, Eq)]".into(), docs_after_attr: after, struct_derives: String::new() };
    render_layout(l, &ro)
}

pub fn corpus_c18(tier: Tier, seed: u64) -> Vec<Layout> {
    let n = tier.pick(300usize, 6000usize);
    let mut v = Vec::new();
    let mut p = Profile::general();
    p.kinds = [3, 5, 3, 3, 2, 2, 2];
    p.shapes = [5, 3, 2, 1];
    p.access = AccessMode::MixedWithNone;
    p.max_fields = 5;
    v.extend(sample_choices(seed, 24, n / 3, 320).iter().map(|w| build_layout(&p, w)));
    p.need_builder = true;
    p.access = AccessMode::AllRW;
    v.extend(sample_choices(seed, 25, n / 3, 320).iter().map(|w| build_layout(&p, w)));
    p.debug = true;
    p.max_array = 0;
    p.need_builder = false;
    v.extend(sample_choices(seed, 26, n / 3, 320).iter().map(|w| build_layout(&p, w)));
    // systematic feature combinations on a few bases
    for b in [8u32, 32, 128, 7, 24, 65] {
        let h = b / 2;
        let mut l = lay(b, vec![fld("lo", 0, h, uty(h), Access::RW), fld("hi", h, b - h, uty(b - h), Access::RW)]);
        v.push(l.clone());
        l.default = Some(DefaultDecl { value: 1, named_const: false, radix: 16, const_name: None });
        v.push(l.clone());
        l.debug = true;
        v.push(l.clone());
    }
    v.extend(sys_lists(Tier::Quick).into_iter().step_by(17));
    v.extend(sys_arrays(Tier::Quick).into_iter().step_by(23));
    v.extend(sys_custom(Tier::Quick).into_iter().step_by(19));
    // many documented fields (each accessor and builder step must carry documentation), long lists, deep nesting
    for (k, mut l) in sys_many_fields(Access::RW).into_iter().step_by(3).chain(sys_long_lists().into_iter().step_by(7)).enumerate() {
        if k % 2 == 0 && !l.fields.iter().any(|f| f.is_array()) {
            l.debug = true;
        }
        v.push(l);
    }
    v.extend(sys_deep_nesting(false).into_iter().step_by(2));
    v.extend(sys_deep_nesting(true).into_iter().skip(1).step_by(2));
    v
}

pub fn run(rc: &RunCtx) -> Outcome {
    let layouts = corpus_c18(rc.tier, rc.seed);
    let step = rc.tier.pick(6usize, 1usize);
    let enums: Vec<EnumDecl> = crate::corpus::enum_corpus(Tier::Quick, rc.seed)
        .into_iter()
        .map(|(_, e)| e)
        .enumerate()
        .filter(|(k, e)| k % step == 0 || e.exhaustive == Exh::True)
        .map(|(_, e)| e)
        .collect();
    let ro_doc = RenderOpts { docs: true, vis_pub: true, enum_derives: "#[derive(Debug, PartialEq, Eq)]".into(), docs_after_attr: false, struct_derives: String::new() };
    let mut files: Vec<(String, String)> = Vec::new();
    let mut sources: BTreeMap<String, String> = BTreeMap::new();
    for (i, l) in layouts.iter().enumerate() {
        if !rules::layout_verdict(l).is_valid() {
            inconclusive(&format!("generator bug: C18 layout {} invalid", i));
        }
        let src = documented_source(l);
        sources.insert(format!("d{}", i), src.clone());
        files.push((format!("d{}", i), format!("//! generated module\n#![allow(unused_imports)]\nuse arbitrary_int::*;\n{}", src)));
    }
    for (i, e) in enums.iter().enumerate() {
        let src = render_enum(e, &ro_doc);
        sources.insert(format!("e{}", i), src.clone());
        files.push((format!("e{}", i), format!("//! generated module\n#![allow(unused_imports)]\nuse arbitrary_int::*;\n{}", src)));
    }
    let dir = rc.work.join("r");
    let crate_name = "rcrate_c18";
    write_v_crate_n(&dir, crate_name, &files, true, true, 1);
    let mut violations = Vec::new();
    let mut evaluations = 0u64;
    // regimes 1 + 2: stable cargo check of the no_std + deny(missing_docs) crate
    let out = cargo(&dir, None, &["check", "--offline", "--message-format=json"], "gen", &[]);
    if out.diags.iter().any(|d| d.level == "error" && d.package.contains("bitbybit") && !d.package.contains("rcrate")) || out.stderr.contains("could not compile `bitbybit`") {
        inconclusive(&format!("the bitbybit crate does not build from /repo: {}", cargo::tail(&out.stderr, 5)));
    }
    let (by_mod, un) = cargo::attribute(&out.diags);
    if !out.success && by_mod.is_empty() {
        inconclusive(&format!("R-crate fails without attributable errors: {:?} {}", un.iter().take(3).collect::<Vec<_>>(), cargo::tail(&out.stderr, 6)));
    }
    evaluations += 2 * files.len() as u64;
    let mut confirmed: BTreeMap<String, u32> = BTreeMap::new();
    for (m, msgs) in &by_mod {
        let src = sources.get(m).cloned().unwrap_or_default();
        let first = msgs.first().map(|x| x.1.clone()).unwrap_or_default();
        let regime = if msgs.iter().any(|(_, t)| t.contains("missing documentation")) { "missing-docs" } else { "no-std" };
        let sig = format!("{}/{}", regime, if m.starts_with('e') { "bitenum" } else { "bitfield" });
        let c = confirmed.entry(sig.clone()).or_insert(0);
        if *c >= 2 {
            continue;
        }
        let iso = check_isolated_opts(rc, &src, true, true);
        if iso.is_empty() {
            continue;
        }
        *c += 1;
        violations.push(Violation {
            sig,
            summary: format!("C18: documented declaration does not compile in a #![no_std] #![deny(missing_docs)] crate: {}\n{}", first, src),
            replay: json!({"kind": "regime", "source": src, "errors": iso}),
        });
    }
    // regime 3: expansion scan
    let mut scan = Scan::default();
    let mut per_module: BTreeMap<String, (u64, u64)> = BTreeMap::new();
    let mut expansion_ok = false;
    if by_mod.is_empty() {
        // stdout of cargo() is consumed as JSON; run again capturing plain stdout
        let text = crate::c18::expand_text(&dir, crate_name);
        match text {
            Ok(t) => match TokenStream::from_str(&t) {
                Ok(ts) => {
                    scan_stream(ts, "crate", &mut scan, &mut per_module);
                    expansion_ok = true;
                }
                Err(e) => inconclusive(&format!("cannot tokenise the expansion: {}", e)),
            },
            Err(e) => inconclusive(&format!("nightly expansion failed: {}", e)),
        }
    }
    if expansion_ok {
        evaluations += scan.items;
        for (k, t) in scan.unsafe_tokens.iter().enumerate() {
            if k >= 3 {
                break;
            }
            let m = t.split(':').next().unwrap_or("").to_string();
            violations.push(Violation {
                sig: format!("unsafe-in-expansion/{}", if m.starts_with('e') { "bitenum" } else { "bitfield" }),
                summary: format!("C18: `unsafe` in the expansion of a generated item: {}\n{}", t, sources.get(&m).cloned().unwrap_or_default()),
                replay: json!({"kind": "expansion", "source": sources.get(&m).cloned().unwrap_or_default(), "item": t}),
            });
        }
        for (k, t) in scan.foreign_paths.iter().enumerate() {
            if k >= 3 {
                break;
            }
            let m = t.split(':').next().unwrap_or("").to_string();
            violations.push(Violation {
                sig: format!("std-or-alloc-path-in-expansion/{}", if m.starts_with('e') { "bitenum" } else { "bitfield" }),
                summary: format!("C18: path outside core / arbitrary_int in the expansion: {}", t),
                replay: json!({"kind": "expansion", "source": sources.get(&m).cloned().unwrap_or_default(), "item": t}),
            });
        }
        if scan.items < files.len() as u64 * 2 {
            inconclusive(&format!("expansion scan saw only {} items for {} declarations", scan.items, files.len()));
        }
    }
    let mut features: BTreeMap<String, u64> = BTreeMap::new();
    for l in &layouts {
        let mut add = |k: &str| *features.entry(k.to_string()).or_insert(0) += 1;
        if l.default.is_some() {
            add("default");
        }
        if l.debug {
            add("debug");
        }
        if rules::builder_expected(l) {
            add("builder");
        } else {
            add("no-builder");
        }
        if !l.base_native() {
            add("arbitrary-base");
        }
        if l.fields.iter().any(|f| f.is_array()) {
            add("array");
        }
        if l.fields.iter().any(|f| f.ranges.len() > 1) {
            add("list");
        }
        if !l.enums.is_empty() {
            add("enum-field");
        }
        if !l.inners.is_empty() {
            add("nested-bitfield");
        }
    }
    let samples: Vec<Value> = vec![json!({"declaration": documented_source(&layouts[0])}), json!({"declaration": documented_source(&layouts[layouts.len() / 2])})];
    let coverage = json!({
        "programs": files.len(),
        "evaluations": evaluations,
        "distinct_nontrivial": files.len() as u64 + scan.items - scan.derived_items_dropped,
        "rule": "cases = (documented pub declaration, regime): (1)+(2) the declaration compiled inside one #![no_std] #![deny(missing_docs)] library whose only dependencies are bitbybit and arbitrary-int (stable cargo check, errors attributed per declaration and re-confirmed in isolation); (3) every item of the nightly -Zunpretty=expanded output of the same crate, tokenised with proc_macro2; items carrying #[automatically_derived] (rustc's nested derive expansion) are dropped, no `unsafe`, `std` or `alloc` identifier may remain. Non-trivial: every declaration and every scanned non-derived item; distinct by declaration text / item",
        "samples": samples,
        "exhaustive": false,
        "bitfield_declarations": layouts.len(),
        "bitenum_declarations": enums.len(),
        "feature_histogram": features,
        "expanded_items_scanned": scan.items,
        "automatically_derived_items_dropped": scan.derived_items_dropped,
        "unsafe_tokens_inside_dropped_derive_items": scan.unsafe_in_dropped,
        "expansion_scanned": expansion_ok,
    });
    Outcome {
        violations,
        coverage,
        assumptions: vec![
            "no_std is checked on the host target (no bare-metal target is installed)".into(),
            "unsafe is searched after nested expansion (nightly -Zunpretty=expanded); items marked #[automatically_derived] come from rustc's own derive(Copy, Clone, Debug, PartialEq, Eq) and are not attributed to bitbybit".into(),
        ],
    }
}

/// plain-text expansion of the (single) R-crate
pub fn expand_text(dir: &std::path::Path, crate_name: &str) -> Result<String, String> {
    let out = std::process::Command::new("cargo")
        .arg("+nightly")
        .args(["rustc", "--offline", "-p", &format!("{}_0", crate_name), "--", "-Zunpretty=expanded"])
        .current_dir(dir)
        .env("CARGO_NET_OFFLINE", "true")
        .env("CARGO_TARGET_DIR", format!("{}/gen-nightly", cargo::target_root()))
        .env("CARGO_INCREMENTAL", "0")
        .env_remove("RUSTFLAGS")
        .output()
        .map_err(|e| format!("{}", e))?;
    if !out.status.success() {
        return Err(cargo::tail(&String::from_utf8_lossy(&out.stderr), 8));
    }
    Ok(String::from_utf8_lossy(&out.stdout).to_string())
}

pub fn replay_doc(rc: &RunCtx, doc: &Value) -> Result<(), String> {
    let src = doc["source"].as_str().unwrap_or_else(|| inconclusive("replay without source"));
    let kind = doc["kind"].as_str().unwrap_or("");
    if kind == "regime" {
        let iso = check_isolated_opts(rc, src, true, true);
        if !iso.is_empty() {
            return Err(format!("still fails: {:?}", iso.first()));
        }
    } else {
        let dir = rc.work.join("r-replay");
        write_v_crate_n(&dir, "rcrate_c18", &[("d0".to_string(), format!("//! generated module\n#![allow(unused_imports)]\nuse arbitrary_int::*;\n{}", src))], true, true, 1);
        let t = expand_text(&dir, "rcrate_c18").unwrap_or_else(|e| inconclusive(&format!("expansion failed: {}", e)));
        let ts = TokenStream::from_str(&t).unwrap_or_else(|e| inconclusive(&format!("cannot tokenise: {}", e)));
        let mut scan = Scan::default();
        let mut pm = BTreeMap::new();
        scan_stream(ts, "crate", &mut scan, &mut pm);
        if !scan.unsafe_tokens.is_empty() || !scan.foreign_paths.is_empty() {
            return Err(format!("still fails: {:?} {:?}", scan.unsafe_tokens.first(), scan.foreign_paths.first()));
        }
    }
    let _ = V_PRELUDE;
    Ok(())
}
