//! Runtime harness linked into every generated behaviour crate.
//!
//! The generated crate supplies a table of `Entry` (one per generated bitfield declaration) or
//! `EnumEntry` (one per generated bitenum); everything else — input generation (proptest),
//! exhaustive sweeps, the comparison with the reference model, panic capture, counting of
//! distinct non-trivial cases, shrinking of inputs and the JSON result — lives here.

pub use model;
pub use model::Val;

pub mod cases;
pub mod exec;
pub mod run;

pub use run::{main_enums, main_layouts};

/// Dynamic view of one generated bitfield value. Implemented by generated adapters only.
/// Field values cross this interface as raw bit patterns.
pub trait Obj {
    /// `raw_value()` widened to u128
    fn raw(&self) -> u128;
    /// getter of field f (element i for arrays)
    fn get(&self, f: usize, i: usize) -> Val;
    /// `with_<f>`
    fn with(&self, f: usize, i: usize, v: u128) -> Box<dyn Obj>;
    /// `set_<f>`
    fn set(&mut self, f: usize, i: usize, v: u128);
    /// `new_with_raw_value(self.raw_value())`
    fn rewrap(&self) -> Box<dyn Obj>;
    /// `format!("{:?}")` / `format!("{:#?}")`
    fn debug(&self, alternate: bool) -> String;
    /// `self == new_with_raw_value(self.raw_value())` through a user-side `#[derive(PartialEq)]` on the
    /// bitfield (struct attributes are passed through by the macro); None when the adapter does not offer it
    fn eq_rewrap(&self) -> Option<bool> {
        None
    }
}

pub struct ConstCase {
    pub name: &'static str,
    pub expr: &'static str,
    /// value computed by the const evaluator
    pub const_val: u128,
    /// the same expression evaluated at run time on black_box'ed inputs
    pub run: fn() -> u128,
    /// value predicted by the reference model at generation time
    pub expected: u128,
    pub nontrivial: bool,
}

pub struct Entry {
    pub id: usize,
    pub layout_json: &'static str,
    pub source: &'static str,
    pub from_raw: fn(u128) -> Box<dyn Obj>,
    pub zero: Option<fn() -> Box<dyn Obj>>,
    /// DEFAULT, Default::default(), new()
    pub defaults: Option<fn() -> Vec<Box<dyn Obj>>>,
    /// full in-order builder chain; one argument vector per writable field (K values for arrays)
    pub build: Option<fn(&[Vec<u128>]) -> Box<dyn Obj>>,
    /// derive(Debug) twin struct filled from model values (one per field)
    pub twin_debug: Option<fn(&[Val], bool) -> String>,
    /// (size_of S, align_of S, size_of native, align_of native)
    pub size_align: Option<(usize, usize, usize, usize)>,
    pub consts: Option<fn() -> Vec<ConstCase>>,
}

pub struct EnumEntry {
    pub id: usize,
    pub decl_json: &'static str,
    pub source: &'static str,
    /// new_with_raw_value(x): Bits(disc) for enums returning Self, Ok(disc)/Err(x) otherwise.
    /// The discriminant is the adapter's own `match` on the variant, not `raw_value()`.
    pub from_raw: fn(u128) -> Val,
    /// variant #k .raw_value()
    pub raw_of: fn(usize) -> u128,
    pub consts: Option<fn() -> Vec<ConstCase>>,
}
