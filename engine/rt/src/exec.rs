//! Executing one concrete case against the generated code and the reference model.

use crate::cases::*;
use crate::{Entry, Obj};
use model::*;
use serde::{Deserialize, Serialize};
use std::panic::{catch_unwind, AssertUnwindSafe};

#[derive(Clone, Debug, Serialize, Deserialize)]
pub struct Failure {
    /// short stable identifier of the violated sub-check
    pub check: String,
    pub detail: String,
}

#[derive(Clone, Copy, Debug, Default)]
pub struct Info {
    pub nontrivial: bool,
    pub digest: u64,
}

fn fail<T>(check: &str, detail: String) -> Result<T, Failure> {
    Err(Failure { check: check.to_string(), detail })
}

pub fn panic_msg(e: Box<dyn std::any::Any + Send>) -> String {
    if let Some(s) = e.downcast_ref::<&str>() {
        s.to_string()
    } else if let Some(s) = e.downcast_ref::<String>() {
        s.clone()
    } else {
        "<non-string panic>".to_string()
    }
}

/// run `f`; a panic becomes Err(message)
pub fn guard<T>(f: impl FnOnce() -> T) -> Result<T, String> {
    catch_unwind(AssertUnwindSafe(f)).map_err(panic_msg)
}

fn g<T>(what: &str, f: impl FnOnce() -> T) -> Result<T, Failure> {
    match guard(f) {
        Ok(v) => Ok(v),
        Err(m) => fail(&format!("panic-in-{}", what), format!("{} panicked: {}", what, m)),
    }
}

pub fn expected_get(ctx: &Ctx, m: u128, f: usize, i: usize) -> Val {
    let fc = &ctx.fields[f];
    let bits = gather(m & ctx.base_mask, &fc.pos[i]);
    present(&ctx.layout, &ctx.layout.fields[f].ty, bits)
}

pub fn model_write(ctx: &Ctx, m: u128, f: usize, i: usize, v: u128) -> u128 {
    let fc = &ctx.fields[f];
    // the model register has exactly base_bits bits
    let pos: Vec<u32> = fc.pos[i].clone();
    let mut r = m;
    for (k, p) in pos.iter().enumerate() {
        if *p >= ctx.layout.base_bits {
            continue;
        }
        if (v >> k) & 1 == 1 {
            r |= 1u128 << p;
        } else {
            r &= !(1u128 << p);
        }
    }
    r & ctx.base_mask
}

pub fn model_build(ctx: &Ctx, args: &[Vec<H>]) -> u128 {
    let mut m = ctx.layout.default_value();
    for (n, wf) in ctx.writable.iter().enumerate() {
        for (i, v) in args[n].iter().enumerate() {
            m = model_write(ctx, m, *wf, i, v.0);
        }
    }
    m
}

/// raw value and every readable field of `x` must agree with the model register `m`
pub fn observe(ctx: &Ctx, x: &dyn Obj, m: u128, what: &str, digest: &mut u64) -> Result<(), Failure> {
    let r = g("raw_value", || x.raw())?;
    *digest = hash_u128(*digest, r);
    if r != m {
        return fail(&format!("{}-raw", what), format!("raw_value() = {:#x}, model = {:#x}", r, m));
    }
    for (f, fc) in ctx.fields.iter().enumerate() {
        if !fc.readable {
            continue;
        }
        for i in 0..fc.count as usize {
            let got = g("getter", || x.get(f, i))?;
            let exp = expected_get(ctx, m, f, i);
            *digest = mix64(*digest ^ val_hash(&got));
            if got != exp {
                return fail(
                    &format!("{}-getter", what),
                    format!("field {}[{}] reads {:?}, model {:?} (raw {:#x})", ctx.layout.fields[f].name, i, got, exp, m),
                );
            }
        }
    }
    Ok(())
}

pub fn val_hash(v: &Val) -> u64 {
    match v {
        Val::Bits(b) => hash_u128(1, *b),
        Val::Signed(s) => hash_u128(2, *s as u128),
        Val::Ok(b) => hash_u128(3, *b),
        Val::Err(b) => hash_u128(4, *b),
        Val::Panic => 5,
    }
}

fn outside_mixed(ctx: &Ctx, raw: u128, foot: u128) -> bool {
    let outside = ctx.base_mask & !foot;
    match outside.count_ones() {
        0 => true,
        1 => true,
        _ => (raw & outside) != 0 && (raw & outside) != outside,
    }
}

pub fn exec_read(ctx: &Ctx, e: &Entry, raw: u128, f: usize, i: usize, noise: u128, k: u32) -> Result<Info, Failure> {
    let fc = &ctx.fields[f];
    let foot = fc.foot[i];
    let mut d = 0u64;
    let a = g("new_with_raw_value", || (e.from_raw)(raw))?;
    let r = g("raw_value", || a.raw())?;
    if r != raw {
        return fail("raw-roundtrip", format!("new_with_raw_value({:#x}).raw_value() = {:#x}", raw, r));
    }
    let got = g("getter", || a.get(f, i))?;
    let exp = expected_get(ctx, raw, f, i);
    d = mix64(d ^ val_hash(&got));
    if got != exp {
        return fail(
            "getter-value",
            format!("raw {:#x}: field {}[{}] reads {:?}, model {:?}", raw, ctx.layout.fields[f].name, i, got, exp),
        );
    }
    // bits outside the footprint must not influence the result
    let raw2 = raw ^ (noise & !foot & ctx.base_mask);
    let a2 = g("new_with_raw_value", || (e.from_raw)(raw2))?;
    let got2 = g("getter", || a2.get(f, i))?;
    if got2 != got {
        return fail(
            "getter-outside-influence",
            format!(
                "field {}[{}]: raw {:#x} reads {:?} but raw {:#x} (same field bits) reads {:?}",
                ctx.layout.fields[f].name, i, raw, got, raw2, got2
            ),
        );
    }
    // flipping field bit k flips exactly bit k of the result
    let kk = (k % fc.width) as usize;
    let raw3 = raw ^ (1u128 << fc.pos[i][kk]);
    let a3 = g("new_with_raw_value", || (e.from_raw)(raw3))?;
    let got3 = g("getter", || a3.get(f, i))?;
    let exp3 = expected_get(ctx, raw3, f, i);
    if got3 != exp3 {
        return fail(
            "getter-bit-weight",
            format!("raw {:#x}: field {}[{}] reads {:?}, model {:?}", raw3, ctx.layout.fields[f].name, i, got3, exp3),
        );
    }
    let fb = raw & foot;
    let nontrivial = outside_mixed(ctx, raw, foot) && (raw & ctx.base_mask & !foot != 0 || ctx.base_mask == foot) && (fc.width == 1 || (fb != 0 && fb != foot));
    Ok(Info { nontrivial, digest: d })
}

pub fn exec_write(ctx: &Ctx, e: &Entry, raw: u128, f: usize, i: usize, v: u128) -> Result<Info, Failure> {
    let fc = &ctx.fields[f];
    let mut d = 0u64;
    let name = &ctx.layout.fields[f].name;
    let a = g("new_with_raw_value", || (e.from_raw)(raw))?;
    let b = g("with", || a.with(f, i, v))?;
    let exp = model_write(ctx, raw, f, i, v);
    let br = g("raw_value", || b.raw())?;
    if br != exp {
        return fail(
            "with-raw",
            format!("raw {:#x}.with_{}[{}]({:#x}) -> {:#x}, model {:#x}", raw, name, i, v, br, exp),
        );
    }
    let ar = g("raw_value", || a.raw())?;
    if ar != raw {
        return fail("with-receiver-changed", format!("receiver changed from {:#x} to {:#x}", raw, ar));
    }
    observe(ctx, &*b, exp, "with", &mut d)?;
    if fc.readable {
        let got = g("getter", || b.get(f, i))?;
        let want = present(&ctx.layout, &ctx.layout.fields[f].ty, v & mask(fc.width));
        if got != want {
            return fail("with-read-back", format!("wrote {:#x} to {}[{}], read back {:?}", v, name, i, got));
        }
    }
    let mut c = g("new_with_raw_value", || (e.from_raw)(raw))?;
    g("set", || c.set(f, i, v))?;
    let cr = g("raw_value", || c.raw())?;
    if cr != br {
        return fail(
            "set-differs-from-with",
            format!("raw {:#x}: set_{}[{}]({:#x}) -> {:#x} but with_ -> {:#x}", raw, name, i, v, cr, br),
        );
    }
    observe(ctx, &*c, exp, "set", &mut d)?;
    let dd = g("with", || b.with(f, i, v))?;
    let dr = g("raw_value", || dd.raw())?;
    if dr != exp {
        return fail("with-not-idempotent", format!("second identical write gives {:#x}, first {:#x}", dr, exp));
    }
    let old = gather(raw, &fc.pos[i]);
    let vv = v & mask(fc.width);
    let nontrivial = old != vv && (old != 0 || vv != mask(fc.width)) && outside_mixed(ctx, raw, fc.foot[i]);
    Ok(Info { nontrivial, digest: d })
}

pub fn exec_oob(ctx: &Ctx, e: &Entry, raw: u128, f: usize, i: usize, op: u8, v: u128) -> Result<Info, Failure> {
    let name = &ctx.layout.fields[f].name;
    let mut a = g("new_with_raw_value", || (e.from_raw)(raw))?;
    match op {
        0 => {
            if let Ok(v) = guard(|| a.get(f, i)) {
                return fail("oob-getter-no-panic", format!("{}({}) on {} elements returned {:?}", name, i, ctx.fields[f].count, v));
            }
        }
        1 => {
            if let Ok(b) = guard(|| a.with(f, i, v)) {
                let r = guard(|| b.raw()).unwrap_or(0);
                return fail(
                    "oob-with-no-panic",
                    format!("with_{}({}, {:#x}) on {} elements returned raw {:#x} (from {:#x})", name, i, v, ctx.fields[f].count, r, raw),
                );
            }
        }
        _ => {
            let res = guard(|| a.set(f, i, v));
            let r = g("raw_value", || a.raw())?;
            if res.is_ok() {
                return fail(
                    "oob-set-no-panic",
                    format!("set_{}({}, {:#x}) on {} elements did not panic; raw {:#x} -> {:#x}", name, i, v, ctx.fields[f].count, raw, r),
                );
            }
            if r != raw {
                return fail("oob-set-modified", format!("panicking set_{}({}) changed raw {:#x} -> {:#x}", name, i, raw, r));
            }
        }
    }
    Ok(Info { nontrivial: true, digest: 1 })
}

/// independent formulation of C12: every bit equals the bit supplied by the last write covering it
pub fn last_write_wins(ctx: &Ctx, raw: u128, ops: &[Op]) -> u128 {
    let mut start = raw;
    let mut from = 0usize;
    // a Build op resets the register
    for (n, op) in ops.iter().enumerate() {
        if let Op::Build { args } = op {
            start = model_build(ctx, args);
            from = n + 1;
        }
    }
    let mut result = 0u128;
    for b in 0..ctx.layout.base_bits {
        let mut bit = (start >> b) & 1;
        'search: for op in ops[from..].iter().rev() {
            let (f, i, v) = match op {
                Op::With { f, i, v } | Op::Set { f, i, v } => (*f, *i, v.0),
                _ => continue,
            };
            let pos = &ctx.fields[f].pos[i];
            // a later value bit for the same position wins inside one write as well
            for (k, p) in pos.iter().enumerate().rev() {
                if *p == b {
                    bit = (v >> k) & 1;
                    break 'search;
                }
            }
        }
        result |= bit << b;
    }
    result
}

#[derive(Clone, Copy)]
pub struct HistMode {
    /// after every step, new_with_raw_value(x.raw_value()) must be indistinguishable from x
    pub rewrap_each_step: bool,
}

pub fn exec_history(ctx: &Ctx, e: &Entry, raw: u128, ops: &[Op], mode: HistMode) -> Result<Info, Failure> {
    let mut d = 0u64;
    let mut x = g("new_with_raw_value", || (e.from_raw)(raw))?;
    let mut m = raw;
    observe(ctx, &*x, m, "initial", &mut d)?;
    if mode.rewrap_each_step {
        if let Some(df) = e.defaults {
            for dobj in g("DEFAULT", df)? {
                if let Some(false) = g("derived-eq", || dobj.eq_rewrap())? {
                    return fail("derived-eq-distinguishes-rewrap", "DEFAULT != new_with_raw_value(DEFAULT.raw_value()) under #[derive(PartialEq)]".to_string());
                }
            }
        }
    }
    let mut written = 0u128;
    let mut overlapping_rewrite = false;
    let mut fields_used: Vec<usize> = Vec::new();
    let mut top_bit_write = false;
    let mut writes = 0;
    for (n, op) in ops.iter().enumerate() {
        match op {
            Op::With { f, i, v } => {
                x = g("with", || x.with(*f, *i, v.0))?;
                m = model_write(ctx, m, *f, *i, v.0);
            }
            Op::Set { f, i, v } => {
                g("set", || x.set(*f, *i, v.0))?;
                m = model_write(ctx, m, *f, *i, v.0);
            }
            Op::Read { f, i } => {
                let got = g("getter", || x.get(*f, *i))?;
                let exp = expected_get(ctx, m, *f, *i);
                if got != exp {
                    return fail("history-read", format!("step {}: {}[{}] reads {:?}, model {:?}", n, ctx.layout.fields[*f].name, i, got, exp));
                }
            }
            Op::Rewrap => {
                x = g("rewrap", || x.rewrap())?;
            }
            Op::Build { args } => {
                let b = match e.build {
                    Some(b) => b,
                    None => continue,
                };
                x = g("builder", || b(&args.iter().map(|a| a.iter().map(|h| h.0).collect()).collect::<Vec<Vec<u128>>>()))?;
                m = model_build(ctx, args);
                written = 0;
            }
        }
        if let Op::With { f, i, .. } | Op::Set { f, i, .. } = op {
            let ft = ctx.fields[*f].foot[*i];
            if written & ft != 0 {
                overlapping_rewrite = true;
            }
            written |= ft;
            if !fields_used.contains(f) {
                fields_used.push(*f);
            }
            if ft >> (ctx.layout.base_bits - 1) & 1 == 1 {
                top_bit_write = true;
            }
            writes += 1;
        }
        observe(ctx, &*x, m, "history", &mut d).map_err(|mut fl| {
            fl.detail = format!("after step {} ({:?}): {}", n, op, fl.detail);
            fl
        })?;
        if mode.rewrap_each_step {
            let y = g("rewrap", || x.rewrap())?;
            let yr = g("raw_value", || y.raw())?;
            let xr = g("raw_value", || x.raw())?;
            if yr != xr {
                return fail("rewrap-raw", format!("step {}: x.raw_value() = {:#x}, re-wrapped = {:#x}", n, xr, yr));
            }
            if let Some(false) = g("derived-eq", || x.eq_rewrap())? {
                return fail(
                    "derived-eq-distinguishes-rewrap",
                    format!("step {}: x != new_with_raw_value(x.raw_value()) under #[derive(PartialEq)] although raw_value() = {:#x} on both: state outside the {} declared bits", n, xr, ctx.layout.base_bits),
                );
            }
            if xr > ctx.base_mask {
                return fail("raw-above-width", format!("step {}: raw_value() = {:#x} exceeds {} bits", n, xr, ctx.layout.base_bits));
            }
            for (f, fc) in ctx.fields.iter().enumerate() {
                if !fc.readable {
                    continue;
                }
                for i in 0..fc.count as usize {
                    let gx = g("getter", || x.get(f, i))?;
                    let gy = g("getter", || y.get(f, i))?;
                    if gx != gy {
                        return fail(
                            "rewrap-distinguishable",
                            format!(
                                "step {}: {}[{}] reads {:?} on x but {:?} on new_with_raw_value(x.raw_value()) (raw {:#x})",
                                n, ctx.layout.fields[f].name, i, gx, gy, xr
                            ),
                        );
                    }
                }
            }
        }
    }
    // writes to disjoint fields commute: the first two writes with disjoint footprints, applied in both orders
    if !mode.rewrap_each_step {
        let ws: Vec<(usize, usize, u128)> = ops
            .iter()
            .filter_map(|o| match o {
                Op::With { f, i, v } | Op::Set { f, i, v } => Some((*f, *i, v.0)),
                _ => None,
            })
            .collect();
        'outer: for a in 0..ws.len().min(4) {
            for b in (a + 1)..ws.len().min(6) {
                let (fa, ia, va) = ws[a];
                let (fb, ib, vb) = ws[b];
                if ctx.fields[fa].foot[ia] & ctx.fields[fb].foot[ib] != 0 {
                    continue;
                }
                let x0 = g("new_with_raw_value", || (e.from_raw)(raw))?;
                let ab = g("with", || x0.with(fa, ia, va).with(fb, ib, vb))?;
                let ba = g("with", || x0.with(fb, ib, vb).with(fa, ia, va))?;
                let (rab, rba) = (g("raw_value", || ab.raw())?, g("raw_value", || ba.raw())?);
                if rab != rba {
                    return fail(
                        "disjoint-writes-do-not-commute",
                        format!(
                            "raw {:#x}: {}[{}]={:#x} then {}[{}]={:#x} gives {:#x}, the other order gives {:#x}",
                            raw, ctx.layout.fields[fa].name, ia, va, ctx.layout.fields[fb].name, ib, vb, rab, rba
                        ),
                    );
                }
                break 'outer;
            }
        }
    }
    let lww = last_write_wins(ctx, raw, ops);
    let fr = g("raw_value", || x.raw())?;
    if fr != lww {
        return fail("last-write-wins", format!("final raw {:#x}, last-write-wins state {:#x}", fr, lww));
    }
    let nontrivial = if mode.rewrap_each_step { top_bit_write } else { writes >= 2 && overlapping_rewrite };
    let _ = fields_used;
    Ok(Info { nontrivial, digest: d })
}

pub fn exec_build(ctx: &Ctx, e: &Entry, args: &[Vec<H>]) -> Result<Info, Failure> {
    let mut d = 0u64;
    let b = e.build.expect("build adapter missing");
    let plain: Vec<Vec<u128>> = args.iter().map(|a| a.iter().map(|h| h.0).collect()).collect();
    let x = g("builder", || b(&plain))?;
    let m = model_build(ctx, args);
    let r = g("raw_value", || x.raw())?;
    if r != m {
        return fail("build-raw", format!("builder chain gives {:#x}, model {:#x} (default {:#x})", r, m, ctx.layout.default_value()));
    }
    observe(ctx, &*x, m, "build", &mut d)?;
    let flat: Vec<u128> = plain.iter().flatten().copied().collect();
    let not_all_equal = flat.windows(2).any(|w| w[0] != w[1]) || flat.len() == 1;
    let wm = rules::writable_mask(&ctx.layout);
    let uncovered_default = ctx.layout.default_value() & !wm != 0;
    let has_array = ctx.writable.iter().any(|f| ctx.fields[*f].is_array);
    Ok(Info { nontrivial: not_all_equal && (uncovered_default || has_array || flat.len() >= 2), digest: d })
}

pub fn exec_raw(ctx: &Ctx, e: &Entry, raw: u128) -> Result<Info, Failure> {
    let a = g("new_with_raw_value", || (e.from_raw)(raw))?;
    let r = g("raw_value", || a.raw())?;
    if r != raw {
        return fail("raw-roundtrip", format!("new_with_raw_value({:#x}).raw_value() = {:#x}", raw, r));
    }
    let b = g("rewrap", || a.rewrap())?;
    let r2 = g("raw_value", || b.raw())?;
    if r2 != raw {
        return fail("raw-roundtrip", format!("second round trip of {:#x} gives {:#x}", raw, r2));
    }
    let mut d = 0;
    observe(ctx, &*a, raw, "raw", &mut d)?;
    Ok(Info { nontrivial: raw != 0 && raw != ctx.base_mask, digest: hash_u128(d, r) })
}

pub fn exec_static(ctx: &Ctx, e: &Entry) -> Result<Info, Failure> {
    if let Some(z) = e.zero {
        let x = g("ZERO", z)?;
        let r = g("raw_value", || x.raw())?;
        if r != 0 {
            return fail("zero-not-zero", format!("ZERO.raw_value() = {:#x}", r));
        }
    }
    if let Some(df) = e.defaults {
        let want = ctx.layout.default_value();
        let v = g("DEFAULT", df)?;
        for (k, x) in v.iter().enumerate() {
            let r = g("raw_value", || x.raw())?;
            if r != want {
                let which = ["DEFAULT", "Default::default()", "new()"][k.min(2)];
                return fail("default-value", format!("{}.raw_value() = {:#x}, declared default {:#x}", which, r, want));
            }
        }
    }
    if let Some((s, a, ns, na)) = e.size_align {
        let want = (ctx.layout.storage_bits() / 8) as usize;
        if s != ns || a != na || s != want {
            return fail(
                "size-align",
                format!("size {} align {}; smallest native integer u{}: size {} align {}", s, a, ctx.layout.storage_bits(), ns, na),
            );
        }
    }
    Ok(Info { nontrivial: true, digest: 7 })
}

pub fn exec_debug(ctx: &Ctx, e: &Entry, raw: u128, ops: &[Op]) -> Result<Info, Failure> {
    let twin = e.twin_debug.expect("twin_debug missing");
    let vals = |m: u128| -> Vec<Val> { (0..ctx.fields.len()).map(|f| expected_get(ctx, m, f, 0)).collect() };
    let a = g("new_with_raw_value", || (e.from_raw)(raw))?;
    let mut d = 0u64;
    for alt in [false, true] {
        let got = g("Debug", || a.debug(alt))?;
        let want = twin(&vals(raw), alt);
        d = mix64(d ^ got.len() as u64);
        if got != want {
            return fail("debug-text", format!("raw {:#x} alt={} prints {:?}, derive(Debug) twin prints {:?}", raw, alt, got, want));
        }
    }
    // function of raw_value() alone: an object reaching some raw through a history prints like a fresh one
    let mut x = g("new_with_raw_value", || (e.from_raw)(raw))?;
    for op in ops {
        match op {
            Op::With { f, i, v } => x = g("with", || x.with(*f, *i, v.0))?,
            Op::Set { f, i, v } => g("set", || x.set(*f, *i, v.0))?,
            _ => {}
        }
    }
    let xr = g("raw_value", || x.raw())?;
    let y = g("new_with_raw_value", || (e.from_raw)(xr))?;
    for alt in [false, true] {
        let tx = g("Debug", || x.debug(alt))?;
        let ty = g("Debug", || y.debug(alt))?;
        if tx != ty {
            return fail("debug-not-function-of-raw", format!("raw {:#x}: {:?} vs {:?}", xr, tx, ty));
        }
        let want = twin(&vals(xr), alt);
        if tx != want {
            return fail("debug-text", format!("raw {:#x} alt={} prints {:?}, twin prints {:?}", xr, alt, tx, want));
        }
    }
    // non-trivial: >= 2 fields whose declaration order differs from their bit order, raw != 0
    let los: Vec<u32> = ctx.layout.fields.iter().map(|f| f.ranges[0].lo).collect();
    let unordered = los.windows(2).any(|w| w[0] > w[1]);
    Ok(Info { nontrivial: raw != 0 && los.len() >= 2 && unordered, digest: d })
}

pub fn exec_const(e: &Entry, k: usize) -> Result<Info, Failure> {
    let cs = (e.consts.expect("consts missing"))();
    exec_const_case(&cs[k])
}

pub fn exec_const_case(c: &crate::ConstCase) -> Result<Info, Failure> {
    let rv = g("runtime-twin", c.run)?;
    if rv != c.const_val {
        return fail("const-vs-runtime", format!("{}: `{}` const-evaluates to {:#x}, runs to {:#x}", c.name, c.expr, c.const_val, rv));
    }
    if rv != c.expected {
        return fail("const-vs-model", format!("{}: `{}` evaluates to {:#x}, model {:#x}", c.name, c.expr, rv, c.expected));
    }
    Ok(Info { nontrivial: c.nontrivial, digest: hash_u128(0, rv) })
}

/// Declarations whose write semantics the statements leave open (a list naming a bit twice): every
/// in-domain operation must still be total, with_ and set_ must agree, and the observed results go into the
/// digest that is compared across build profiles.
pub fn exec_loose(_ctx: &Ctx, e: &Entry, case: &Case) -> Result<Info, Failure> {
    let mut d = 0u64;
    match case {
        Case::Read { raw, f, i, .. } => {
            let a = g("new_with_raw_value", || (e.from_raw)(raw.0))?;
            let v = g("getter", || a.get(*f, *i))?;
            d = mix64(d ^ val_hash(&v));
        }
        Case::Write { raw, f, i, v } => {
            let a = g("new_with_raw_value", || (e.from_raw)(raw.0))?;
            let b = g("with", || a.with(*f, *i, v.0))?;
            let br = g("raw_value", || b.raw())?;
            let mut c = g("new_with_raw_value", || (e.from_raw)(raw.0))?;
            g("set", || c.set(*f, *i, v.0))?;
            let cr = g("raw_value", || c.raw())?;
            if cr != br {
                return fail("set-differs-from-with", format!("raw {:#x}: set_ gives {:#x}, with_ gives {:#x}", raw.0, cr, br));
            }
            d = hash_u128(d, br);
        }
        Case::History { raw, ops } => {
            let mut x = g("new_with_raw_value", || (e.from_raw)(raw.0))?;
            for op in ops {
                match op {
                    Op::With { f, i, v } => x = g("with", || x.with(*f, *i, v.0))?,
                    Op::Set { f, i, v } => g("set", || x.set(*f, *i, v.0))?,
                    Op::Read { f, i } => {
                        let v = g("getter", || x.get(*f, *i))?;
                        d = mix64(d ^ val_hash(&v));
                    }
                    Op::Rewrap => x = g("rewrap", || x.rewrap())?,
                    Op::Build { .. } => {}
                }
                d = hash_u128(d, g("raw_value", || x.raw())?);
            }
        }
        Case::Raw { raw } => {
            let a = g("new_with_raw_value", || (e.from_raw)(raw.0))?;
            d = hash_u128(d, g("raw_value", || a.raw())?);
        }
        _ => {}
    }
    Ok(Info { nontrivial: true, digest: d })
}

pub fn exec_case(ctx: &Ctx, e: &Entry, prop: &str, case: &Case) -> Result<Info, Failure> {
    if ctx.loose && prop == "C16" {
        return match case {
            Case::Oob { raw, f, i, op, v } => exec_oob(ctx, e, raw.0, *f, *i, *op, v.0),
            Case::Build { .. } => Ok(Info::default()),
            other => exec_loose(ctx, e, other),
        };
    }
    match case {
        Case::Read { raw, f, i, noise, k } => exec_read(ctx, e, raw.0, *f, *i, noise.0, *k),
        Case::Write { raw, f, i, v } => exec_write(ctx, e, raw.0, *f, *i, v.0),
        Case::Oob { raw, f, i, op, v } => exec_oob(ctx, e, raw.0, *f, *i, *op, v.0),
        Case::History { raw, ops } => exec_history(ctx, e, raw.0, ops, HistMode { rewrap_each_step: prop == "C11" }),
        Case::Build { args } => exec_build(ctx, e, args),
        Case::Raw { raw } => exec_raw(ctx, e, raw.0),
        Case::Debug { raw, ops } => exec_debug(ctx, e, raw.0, ops),
        Case::Const { k } => exec_const(e, *k),
        Case::Static => exec_static(ctx, e),
        Case::Enum { .. } => unreachable!("enum cases run through exec_enum"),
    }
}

/// C07: conversions of one enum for raw value x
pub fn exec_enum(decl: &EnumDecl, e: &crate::EnumEntry, x: u128) -> Result<Info, Failure> {
    let got = g("new_with_raw_value", || (e.from_raw)(x))?;
    let hit = decl.lookup(x);
    let exp = match (decl.returns_plain(), hit) {
        (true, Some(_)) => Val::Bits(x),
        (true, None) => Val::Panic, // cannot happen for an accepted exhaustive enum
        (false, Some(_)) => Val::Ok(x),
        (false, None) => Val::Err(x),
    };
    if got != exp {
        return fail(
            "enum-from-raw",
            format!("{}::new_with_raw_value({:#x}) gives {:?}, discriminant table says {:?}", decl.name, x, got, exp),
        );
    }
    if let Some(vi) = hit {
        let r = g("raw_value", || (e.raw_of)(vi))?;
        if r != x {
            return fail("enum-raw-value", format!("{}::{}.raw_value() = {:#x}, discriminant {:#x}", decl.name, decl.variants[vi].name, r, x));
        }
    }
    Ok(Info { nontrivial: decl.table().len() >= 2, digest: val_hash(&got) ^ if hit.is_some() { 1 } else { 2 } })
}
