//! Level-2 inputs: concrete cases (serialisable, replayable) and the proptest strategy that
//! produces them. A fixed, layout-independent strategy yields an *abstract* tuple of selectors;
//! `concretize` maps it monotonically onto the layout, so proptest's shrinking of the selectors
//! moves towards field 0, index 0, value 0, shorter histories.

use model::*;
use proptest::prelude::*;
use serde::{Deserialize, Serialize};

#[derive(Clone, Debug, Serialize, Deserialize, PartialEq, Eq, Hash)]
pub enum Op {
    With { f: usize, i: usize, v: H },
    Set { f: usize, i: usize, v: H },
    Read { f: usize, i: usize },
    Rewrap,
    Build { args: Vec<Vec<H>> },
}

#[derive(Clone, Debug, Serialize, Deserialize, PartialEq, Eq, Hash)]
pub enum Case {
    /// C01 style: read field f[i] of raw; also with `noise` applied outside the footprint and with
    /// bit k of the field flipped
    Read { raw: H, f: usize, i: usize, noise: H, k: u32 },
    /// C02 style: write v into f[i] with with_ and set_
    Write { raw: H, f: usize, i: usize, v: H },
    /// out-of-range index; op 0 = getter, 1 = with_, 2 = set_
    Oob { raw: H, f: usize, i: usize, op: u8, v: H },
    /// operation history from a starting value
    History { raw: H, ops: Vec<Op> },
    /// full builder chain
    Build { args: Vec<Vec<H>> },
    /// raw round trip
    Raw { raw: H },
    /// Debug text of raw, and of an object that reaches some raw through a history
    Debug { raw: H, ops: Vec<Op> },
    /// bitenum: convert x
    Enum { x: H },
    /// const case #k
    Const { k: usize },
    /// static per-layout facts (ZERO, DEFAULT, size, align)
    Static,
}

pub struct FieldCtx {
    pub width: u32,
    pub count: u32,
    pub pos: Vec<Vec<u32>>,
    pub foot: Vec<u128>,
    pub foot_all: u128,
    pub readable: bool,
    pub writable: bool,
    /// interesting values of the field type (bit patterns)
    pub edges: Vec<u128>,
    /// Some(list) when only these bit patterns may be written (enum discriminants)
    pub valid_vals: Option<Vec<u128>>,
    pub is_list: bool,
    pub is_signed: bool,
    pub is_custom: bool,
    pub is_array: bool,
}

pub struct Ctx {
    pub layout: Layout,
    pub fields: Vec<FieldCtx>,
    pub base_mask: u128,
    pub specials: Vec<u128>,
    /// indices of writable fields in declaration order (builder argument order)
    pub writable: Vec<usize>,
    /// some field names a bit twice: write semantics are unspecified, only totality and profile
    /// independence are checked (C16)
    pub loose: bool,
}

impl Ctx {
    pub fn new(layout: Layout) -> Ctx {
        let base_mask = layout.base_mask();
        let bb = layout.base_bits;
        let mut fields = Vec::new();
        for f in &layout.fields {
            let width = f.width();
            let count = f.count();
            let pos: Vec<Vec<u32>> = (0..count).map(|i| f.positions(i)).collect();
            let foot: Vec<u128> = (0..count).map(|i| f.footprint(i)).collect();
            let foot_all = foot.iter().fold(0, |a, b| a | b);
            let m = mask(width);
            let mut edges = vec![0u128, m, 1 & m];
            if width >= 2 {
                edges.push(1u128 << (width - 1)); // sign bit only / MIN
                edges.push(m >> 1); // MAX signed
                edges.push(m - 1);
                edges.push(0x5555_5555_5555_5555_5555_5555_5555_5555 & m);
                edges.push(0xAAAA_AAAA_AAAA_AAAA_AAAA_AAAA_AAAA_AAAA & m);
                // values straddling the range boundaries of a list
                let mut acc = 0u32;
                for r in &f.ranges {
                    acc += r.len();
                    if acc < width && acc > 0 {
                        edges.push((1u128 << acc) & m);
                        edges.push(((1u128 << acc) - 1) & m);
                        edges.push((1u128 << (acc - 1)) & m);
                    }
                }
            }
            let valid_vals = match &f.ty {
                FieldTy::Enum { idx, .. } => {
                    let mut t: Vec<u128> = layout.enums[*idx].table().iter().map(|(d, _)| *d).collect();
                    t.sort();
                    Some(t)
                }
                _ => None,
            };
            fields.push(FieldCtx {
                width,
                count,
                pos,
                foot,
                foot_all,
                readable: f.access.readable(),
                writable: f.access.writable(),
                edges,
                valid_vals,
                is_list: f.ranges.len() > 1,
                is_signed: matches!(f.ty, FieldTy::INat { .. }),
                is_custom: matches!(f.ty, FieldTy::Enum { .. } | FieldTy::Nested { .. }),
                is_array: f.is_array(),
            });
        }
        let mut specials: Vec<u128> = vec![0, base_mask];
        for b in 0..bb {
            specials.push(1u128 << b);
            specials.push(base_mask & !(1u128 << b));
            specials.push(mask(b + 1));
        }
        specials.push(0x5555_5555_5555_5555_5555_5555_5555_5555 & base_mask);
        specials.push(0xAAAA_AAAA_AAAA_AAAA_AAAA_AAAA_AAAA_AAAA & base_mask);
        for fc in &fields {
            for ft in &fc.foot {
                specials.push(ft & base_mask);
                specials.push(!ft & base_mask);
                specials.push((ft | (ft << 1) | (ft >> 1)) & base_mask);
                specials.push(((ft << 1) | (ft >> 1)) & !ft & base_mask);
            }
        }
        let writable = (0..fields.len()).filter(|i| fields[*i].writable).collect();
        let loose = layout.fields.iter().any(|f| !model::rules::ranges_disjoint(f));
        Ctx { layout, fields, base_mask, specials, writable, loose }
    }
}

// ---------------------------------------------------------------------------------------------
// abstract (layout independent) selectors

#[derive(Clone, Debug)]
pub struct AbsVal {
    pub mode: u8,
    pub bits: u128,
}

#[derive(Clone, Debug)]
pub struct AbsOp {
    pub kind: u8,
    pub f: u16,
    pub i: u16,
    pub v: AbsVal,
}

#[derive(Clone, Debug)]
pub struct Abs {
    pub kind: u16,
    pub raw: AbsVal,
    pub raw_idx: u16,
    pub f: u16,
    pub i_mode: u8,
    pub i: u16,
    pub v: AbsVal,
    pub noise: u128,
    pub k: u16,
    pub ops: Vec<AbsOp>,
    pub args: Vec<AbsVal>,
}

fn absval() -> impl Strategy<Value = AbsVal> {
    (any::<u8>(), any::<u128>()).prop_map(|(mode, bits)| AbsVal { mode, bits })
}

fn absop() -> impl Strategy<Value = AbsOp> {
    (any::<u8>(), any::<u16>(), any::<u16>(), absval()).prop_map(|(kind, f, i, v)| AbsOp { kind, f, i, v })
}

pub fn abs_strategy(max_ops: usize, n_args: usize) -> BoxedStrategy<Abs> {
    (
        (any::<u16>(), absval(), any::<u16>(), any::<u16>(), any::<u8>(), any::<u16>()),
        (absval(), any::<u128>(), any::<u16>()),
        proptest::collection::vec(absop(), 0..=max_ops),
        proptest::collection::vec(absval(), n_args..=n_args),
    )
        .prop_map(|((kind, raw, raw_idx, f, i_mode, i), (v, noise, k), ops, args)| Abs {
            kind,
            raw,
            raw_idx,
            f,
            i_mode,
            i,
            v,
            noise,
            k,
            ops,
            args,
        })
        .boxed()
}

/// monotone map of a 16-bit selector onto 0..len
pub fn pick(sel: u16, len: usize) -> usize {
    if len == 0 {
        0
    } else {
        ((sel as usize) * len) >> 16
    }
}

pub fn conc_raw(ctx: &Ctx, a: &AbsVal, idx: u16) -> u128 {
    let m = ctx.base_mask;
    match a.mode % 8 {
        0 | 1 | 2 => a.bits & m,
        3 | 4 => ctx.specials[pick(idx, ctx.specials.len())],
        5 => ctx.specials[pick(idx, ctx.specials.len())] ^ (1u128 << ((a.bits % ctx.layout.base_bits as u128) as u32)),
        6 => a.bits & a.bits.rotate_left(17) & m,
        _ => (a.bits | a.bits.rotate_left(29)) & m,
    }
}

pub fn conc_val(fc: &FieldCtx, a: &AbsVal) -> u128 {
    if let Some(vv) = &fc.valid_vals {
        if vv.is_empty() {
            return 0;
        }
        return vv[pick((a.bits & 0xFFFF) as u16, vv.len())];
    }
    if fc.width == 0 {
        return 0;
    }
    let m = mask(fc.width);
    match a.mode % 8 {
        0 | 1 | 2 | 3 => a.bits & m,
        4 | 5 => fc.edges[pick((a.bits & 0xFFFF) as u16, fc.edges.len())],
        6 => (1u128 << ((a.bits % fc.width as u128) as u32)) & m,
        _ => !(1u128 << ((a.bits % fc.width as u128) as u32)) & m,
    }
}

/// Like `conc_val`, but one value in eight is derived from what the field currently holds in `cur` (element `i`):
/// the same value again, the field's bits taken from the word *without shifting them down*, one bit flipped, the
/// complement, +1 / -1, the bits just above the field, the low bits of the word. A fault whose trigger is a
/// relation between the old contents and the new value (an early return "nothing changes", a carry, a compare
/// with an unshifted mask) has probability 2^-width under independent uniform values; here it is hit directly.
pub fn conc_val_rel(ctx: &Ctx, f: usize, i: usize, a: &AbsVal, cur: u128) -> u128 {
    let fc = &ctx.fields[f];
    // BBV_NO_REL=1 switches the related values off (used once to measure what they add; see DESIGN.md 13.5)
    static NO_REL: std::sync::OnceLock<bool> = std::sync::OnceLock::new();
    let no_rel = *NO_REL.get_or_init(|| std::env::var("BBV_NO_REL").map(|v| v == "1").unwrap_or(false));
    if no_rel || fc.width == 0 || (a.mode >> 3) % 8 != 0 || fc.pos.is_empty() {
        return conc_val(fc, a);
    }
    let i = i.min(fc.pos.len() - 1);
    let m = mask(fc.width);
    let old = gather(cur, &fc.pos[i]);
    if let Some(vv) = &fc.valid_vals {
        // enum-typed field: only discriminants may be written
        return if vv.contains(&old) { old } else { conc_val(fc, a) };
    }
    let k = ((a.bits >> 8) % fc.width as u128) as u32;
    let above = (fc.pos[i][0] + fc.width) % ctx.layout.base_bits.max(1);
    match ((a.mode >> 6) as u32) * 2 + ((a.bits >> 7) & 1) as u32 {
        0 => old,
        1 => (cur & fc.foot[i]) & m,
        2 => old ^ (1u128 << k),
        3 => !old & m,
        4 => old.wrapping_add(1) & m,
        5 => old.wrapping_sub(1) & m,
        6 => (cur >> above) & m,
        _ => cur & m,
    }
}

pub fn conc_index(count: u32, mode: u8, sel: u16) -> usize {
    if count <= 1 {
        return 0;
    }
    match mode % 4 {
        0 | 1 => pick(sel, count as usize),
        2 => 0,
        _ => count as usize - 1,
    }
}

pub const OOB: [usize; 10] = [0, 1, 2, 63, 64, 127, 128, 1 << 20, usize::MAX - 1, usize::MAX];

pub fn conc_oob(count: u32, stride: u32, sel: u16) -> usize {
    let k = count as usize;
    let mut list = vec![k, k + 1, 2 * k, 63, 64, 127, 128, 255, 256, 1 << 20, usize::MAX / 2, usize::MAX - 1, usize::MAX];
    // indices whose offset `index * stride` wraps around to the offset of a valid element
    // (index = i + 2^(64-t) for a stride divisible by 2^t)
    let t = stride.trailing_zeros().min(16);
    if stride > 0 && usize::BITS == 64 {
        for tt in 1..=t.max(1) {
            let w = 1usize << (64 - tt);
            list.push(w);
            list.push(w + 1);
            list.push(w + k - 1);
        }
        list.push(1usize << 63);
        list.push((1usize << 63) + 1);
        // indices that look in range after narrowing to 8 / 16 / 32 bits
        for sh in [8u32, 16, 32] {
            list.push(1usize << sh);
            list.push((1usize << sh) + 1);
            list.push((1usize << sh) + k - 1);
        }
    }
    let cands: Vec<usize> = list.iter().copied().filter(|x| *x >= k).collect();
    cands[pick(sel, cands.len())]
}

pub fn conc_ops(ctx: &Ctx, elig: &[usize], ops: &[AbsOp], allow_build: bool, writes_only: bool, raw0: u128) -> Vec<Op> {
    let mut out = Vec::new();
    // contents according to the reference model, so that values can be related to what a field holds *now*
    let mut cur = raw0;
    for o in ops {
        let kind = o.kind % 16;
        let wr: Vec<usize> = elig.iter().copied().filter(|f| ctx.fields[*f].writable).collect();
        let rd: Vec<usize> = elig.iter().copied().filter(|f| ctx.fields[*f].readable).collect();
        match kind {
            0..=5 | 6..=10 => {
                if wr.is_empty() {
                    continue;
                }
                let f = wr[pick(o.f, wr.len())];
                let fc = &ctx.fields[f];
                let i = conc_index(fc.count, (o.i & 3) as u8, o.i);
                let v = H(conc_val_rel(ctx, f, i, &o.v, cur));
                if !ctx.loose {
                    cur = scatter(cur, &fc.pos[i], v.0);
                }
                if kind <= 5 {
                    out.push(Op::With { f, i, v });
                } else {
                    out.push(Op::Set { f, i, v });
                }
            }
            11 | 12 | 13 => {
                if writes_only || rd.is_empty() {
                    continue;
                }
                let f = rd[pick(o.f, rd.len())];
                let fc = &ctx.fields[f];
                let i = conc_index(fc.count, (o.i & 3) as u8, o.i);
                out.push(Op::Read { f, i });
            }
            14 => {
                if !writes_only {
                    out.push(Op::Rewrap)
                }
            }
            _ => {
                if allow_build {
                    // arguments derived from the op's value selector
                    let mut args = Vec::new();
                    let mut s = o.v.bits;
                    for wf in &ctx.writable {
                        let fc = &ctx.fields[*wf];
                        let mut a = Vec::new();
                        for _ in 0..fc.count {
                            s = s.rotate_left(23) ^ 0x9E37_79B9_7F4A_7C15_F39C_C060_5CED_C835u128.wrapping_mul(s | 1);
                            a.push(H(conc_val(fc, &AbsVal { mode: (s >> 120) as u8, bits: s })));
                        }
                        args.push(a);
                    }
                    cur = ctx.layout.default_value();
                    for (wf, a) in ctx.writable.iter().zip(args.iter()) {
                        for (k, v) in a.iter().enumerate() {
                            cur = scatter(cur, &ctx.fields[*wf].pos[k], v.0);
                        }
                    }
                    out.push(Op::Build { args });
                }
            }
        }
    }
    out
}

pub fn conc_build_args(ctx: &Ctx, abs: &Abs) -> Vec<Vec<H>> {
    let mut args = Vec::new();
    let mut k = 0;
    for wf in &ctx.writable {
        let fc = &ctx.fields[*wf];
        let mut a = Vec::new();
        for e in 0..fc.count {
            let av = &abs.args[k.min(abs.args.len() - 1)];
            // one argument in eight is related to what the declared default holds in this field
            a.push(H(conc_val_rel(ctx, *wf, e as usize, av, ctx.layout.default_value())));
            k += 1;
        }
        args.push(a);
    }
    args
}

pub fn n_build_args(ctx: &Ctx) -> usize {
    ctx.writable.iter().map(|f| ctx.fields[*f].count as usize).sum::<usize>().max(1)
}
