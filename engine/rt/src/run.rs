//! Entry points of generated binaries: argument parsing, per-property plans, exhaustive sweeps,
//! the proptest loop, result file.

use crate::cases::*;
use crate::exec::*;
use crate::{Entry, EnumEntry};
use model::*;
use proptest::test_runner::{Config, RngAlgorithm, TestCaseError, TestError, TestRng, TestRunner};
use serde::{Deserialize, Serialize};
use std::cell::{Cell, RefCell};
use std::collections::{BTreeMap, HashSet};
use std::sync::atomic::{AtomicUsize, Ordering};
use std::sync::Mutex;

#[derive(Clone, Debug)]
pub struct Args {
    pub prop: String,
    pub seed: u64,
    pub cases: u32,
    pub out: String,
    pub threads: usize,
    pub only: Option<usize>,
    pub replay: Option<String>,
    pub exh_budget: u64,
    pub max_ops: usize,
}

pub fn parse_args() -> Args {
    let mut a = Args {
        prop: "C02".into(),
        seed: 0,
        cases: 1000,
        out: "result.json".into(),
        threads: 16,
        only: None,
        replay: None,
        exh_budget: 300_000,
        max_ops: 24,
    };
    let v: Vec<String> = std::env::args().collect();
    let mut i = 1;
    while i < v.len() {
        let val = || v.get(i + 1).cloned().unwrap_or_default();
        match v[i].as_str() {
            "--prop" => a.prop = val(),
            "--seed" => a.seed = val().parse().unwrap_or(0),
            "--cases" => a.cases = val().parse().unwrap_or(1000),
            "--out" => a.out = val(),
            "--threads" => a.threads = val().parse().unwrap_or(16),
            "--only" => a.only = val().parse().ok(),
            "--replay" => a.replay = Some(val()),
            "--exh-budget" => a.exh_budget = val().parse().unwrap_or(300_000),
            "--max-ops" => a.max_ops = val().parse().unwrap_or(24),
            _ => {
                i += 1;
                continue;
            }
        }
        i += 2;
    }
    a
}

#[derive(Clone, Copy, Debug, PartialEq, Eq)]
pub enum Kind {
    Read,
    Write,
    Oob,
    History,
    Build,
    Raw,
    Debug,
}

pub struct Plan {
    pub kinds: Vec<(u32, Kind)>,
    /// fields the property talks about
    pub elig: Vec<usize>,
    pub exhaustive_ok: bool,
}

fn plan(ctx: &Ctx, e: &Entry, prop: &str) -> Plan {
    let all: Vec<usize> = (0..ctx.fields.len()).collect();
    let filt = |p: &dyn Fn(&FieldCtx) -> bool| -> Vec<usize> { all.iter().copied().filter(|f| p(&ctx.fields[*f])).collect() };
    let has_arr = ctx.fields.iter().any(|f| f.is_array);
    match prop {
        "C01" => Plan { kinds: vec![(1, Kind::Read)], elig: filt(&|f| f.readable), exhaustive_ok: true },
        "C02" => Plan { kinds: vec![(1, Kind::Write)], elig: filt(&|f| f.writable), exhaustive_ok: true },
        "C03" => Plan { kinds: vec![(2, Kind::Read), (4, Kind::Write), (2, Kind::Oob)], elig: filt(&|f| f.is_array), exhaustive_ok: true },
        "C04" => Plan { kinds: vec![(1, Kind::Read), (3, Kind::Write)], elig: filt(&|f| f.is_list), exhaustive_ok: true },
        "C05" => Plan { kinds: vec![(1, Kind::Read), (3, Kind::Write)], elig: filt(&|f| f.is_signed), exhaustive_ok: true },
        "C08" => Plan { kinds: vec![(1, Kind::Read), (3, Kind::Write)], elig: filt(&|f| f.is_custom), exhaustive_ok: true },
        "C06" => Plan { kinds: vec![(1, Kind::Raw)], elig: all, exhaustive_ok: true },
        "C11" => Plan { kinds: vec![(1, Kind::History)], elig: all, exhaustive_ok: false },
        // C12: for small bases the single-step agreement is swept exhaustively first (every raw x field x
        // index x value through with_ and set_), which by induction covers every history; then histories
        "C12" => Plan { kinds: vec![(1, Kind::History)], elig: all, exhaustive_ok: true },
        "C13" => Plan { kinds: vec![(1, Kind::Build)], elig: all, exhaustive_ok: false },
        "C16" => {
            let mut k = vec![(2, Kind::Read), (3, Kind::Write), (2, Kind::History), (1, Kind::Raw)];
            if has_arr {
                k.push((2, Kind::Oob));
            }
            if e.build.is_some() {
                k.push((1, Kind::Build));
            }
            Plan { kinds: k, elig: all, exhaustive_ok: false }
        }
        "C19" => Plan { kinds: vec![(1, Kind::Debug)], elig: all, exhaustive_ok: false },
        _ => Plan { kinds: vec![], elig: all, exhaustive_ok: false },
    }
}

pub fn concretize(ctx: &Ctx, e: &Entry, prop: &str, pl: &Plan, max_ops: usize, a: &Abs) -> Option<Case> {
    let total: u32 = pl.kinds.iter().map(|k| k.0).sum();
    if total == 0 {
        return None;
    }
    let mut sel = ((a.kind as u32) * total) >> 16;
    let mut kind = pl.kinds[0].1;
    for (w, k) in &pl.kinds {
        if sel < *w {
            kind = *k;
            break;
        }
        sel -= w;
    }
    let raw = conc_raw(ctx, &a.raw, a.raw_idx);
    let rd: Vec<usize> = pl.elig.iter().copied().filter(|f| ctx.fields[*f].readable).collect();
    let wr: Vec<usize> = pl.elig.iter().copied().filter(|f| ctx.fields[*f].writable).collect();
    let arr: Vec<usize> = pl.elig.iter().copied().filter(|f| ctx.fields[*f].is_array).collect();
    // fall back to another kind when the layout offers nothing for the chosen one
    let kind = match kind {
        Kind::Read if rd.is_empty() => {
            if wr.is_empty() {
                return None;
            } else {
                Kind::Write
            }
        }
        Kind::Write if wr.is_empty() => {
            if rd.is_empty() {
                return None;
            } else {
                Kind::Read
            }
        }
        Kind::Oob if arr.is_empty() => return None,
        k => k,
    };
    Some(match kind {
        Kind::Read => {
            let f = rd[pick(a.f, rd.len())];
            let fc = &ctx.fields[f];
            let i = conc_index(fc.count, a.i_mode, a.i);
            Case::Read { raw: H(raw), f, i, noise: H(a.noise), k: (a.k as u32) % fc.width.max(1) }
        }
        Kind::Write => {
            let f = wr[pick(a.f, wr.len())];
            let fc = &ctx.fields[f];
            let i = conc_index(fc.count, a.i_mode, a.i);
            Case::Write { raw: H(raw), f, i, v: H(conc_val_rel(ctx, f, i, &a.v, raw)) }
        }
        Kind::Oob => {
            let f = arr[pick(a.f, arr.len())];
            let fc = &ctx.fields[f];
            let i = conc_oob(fc.count, ctx.layout.fields[f].stride(), a.i);
            let mut ops: Vec<u8> = Vec::new();
            if fc.readable {
                ops.push(0);
            }
            if fc.writable {
                ops.push(1);
                ops.push(2);
            }
            if ops.is_empty() {
                return None;
            }
            let op = ops[(a.i_mode as usize) % ops.len()];
            // one value in four equals the bits found where the out-of-range element would lie (a write that
            // "changes nothing" must still be refused)
            let mut v = conc_val(fc, &a.v);
            if (a.v.mode >> 3) % 4 == 0 && fc.valid_vals.is_none() {
                let off = (i as u128).wrapping_mul(ctx.layout.fields[f].stride() as u128);
                let shifted: Vec<u32> = fc.pos[0].iter().map(|p| (*p as u128).wrapping_add(off)).map(|p| if p < 128 { p as u32 } else { (p % 128) as u32 }).collect();
                v = gather(raw, &shifted) & mask(fc.width);
            }
            Case::Oob { raw: H(raw), f, i, op, v: H(v) }
        }
        Kind::History => {
            let allow_build = prop == "C11" && e.build.is_some();
            let n = a.ops.len().min(max_ops);
            Case::History { raw: H(raw), ops: conc_ops(ctx, &pl.elig, &a.ops[..n], allow_build, false, raw) }
        }
        Kind::Build => Case::Build { args: conc_build_args(ctx, a) },
        Kind::Raw => Case::Raw { raw: H(raw) },
        Kind::Debug => {
            let n = a.ops.len().min(6);
            Case::Debug { raw: H(raw), ops: conc_ops(ctx, &pl.elig, &a.ops[..n], false, true, raw) }
        }
    })
}

#[derive(Serialize, Deserialize, Clone, Debug)]
pub struct FailOut {
    pub check: String,
    pub detail: String,
    pub case: Case,
    pub shrunk: bool,
}

#[derive(Serialize, Deserialize, Clone, Debug, Default)]
pub struct LayoutResult {
    pub id: usize,
    pub evaluations: u64,
    pub nontrivial_distinct: u64,
    pub exhaustive: bool,
    pub skipped: bool,
    pub failure: Option<FailOut>,
    pub samples: Vec<Case>,
    pub digest: String,
    pub kinds: BTreeMap<String, u64>,
    pub extra: BTreeMap<String, u64>,
}

fn case_hash(c: &Case) -> u64 {
    use std::hash::{Hash, Hasher};
    let mut h = std::collections::hash_map::DefaultHasher::new();
    c.hash(&mut h);
    h.finish()
}

fn kind_name(c: &Case) -> &'static str {
    match c {
        Case::Read { .. } => "read",
        Case::Write { .. } => "write",
        Case::Oob { .. } => "oob",
        Case::History { .. } => "history",
        Case::Build { .. } => "build",
        Case::Raw { .. } => "raw",
        Case::Debug { .. } => "debug",
        Case::Enum { .. } => "enum",
        Case::Const { .. } => "const",
        Case::Static => "static",
    }
}

struct Acc {
    evaluations: u64,
    seen: HashSet<u64>,
    samples: Vec<Case>,
    digest: u64,
    kinds: BTreeMap<String, u64>,
}

impl Acc {
    fn new() -> Acc {
        Acc { evaluations: 0, seen: HashSet::new(), samples: Vec::new(), digest: 0, kinds: BTreeMap::new() }
    }
    fn record(&mut self, c: &Case, info: &Info) {
        self.evaluations += 1;
        let h = case_hash(c);
        self.digest = self.digest.wrapping_add(mix64(h ^ info.digest));
        *self.kinds.entry(kind_name(c).to_string()).or_insert(0) += 1;
        if info.nontrivial && self.seen.insert(h) && self.samples.len() < 2 {
            self.samples.push(c.clone());
        }
    }
}

fn seed_bytes(parts: &[u64]) -> [u8; 32] {
    let mut out = [0u8; 32];
    let mut h = mix_all(parts);
    for k in 0..4 {
        h = mix64(h ^ k as u64);
        out[k * 8..k * 8 + 8].copy_from_slice(&h.to_le_bytes());
    }
    out
}

fn prop_num(prop: &str) -> u64 {
    prop.bytes().fold(0u64, |a, b| a.wrapping_mul(131).wrapping_add(b as u64))
}

fn run_layout(e: &Entry, args: &Args) -> LayoutResult {
    let layout: Layout = serde_json::from_str(e.layout_json).expect("layout json");
    let ctx = Ctx::new(layout);
    let mut res = LayoutResult { id: e.id, ..Default::default() };
    let prop = args.prop.as_str();
    let mut acc = Acc::new();

    // a single explicit case (replay), bypassing proptest
    if let Some(rj) = &args.replay {
        let case: Case = serde_json::from_str(rj).expect("replay case json");
        match exec_case(&ctx, e, prop, &case) {
            Ok(info) => acc.record(&case, &info),
            Err(f) => res.failure = Some(FailOut { check: f.check, detail: f.detail, case, shrunk: false }),
        }
        finish(&mut res, acc);
        return res;
    }

    // per-layout static facts
    if prop == "C06" {
        match exec_static(&ctx, e) {
            Ok(info) => acc.record(&Case::Static, &info),
            Err(f) => {
                res.failure = Some(FailOut { check: f.check, detail: f.detail, case: Case::Static, shrunk: false });
                finish(&mut res, acc);
                return res;
            }
        }
    }
    if prop == "C15" {
        let cs = (e.consts.expect("consts"))();
        for (k, c) in cs.iter().enumerate() {
            let case = Case::Const { k };
            match exec_const_case(c) {
                Ok(info) => acc.record(&case, &info),
                Err(f) => {
                    res.failure = Some(FailOut { check: f.check, detail: f.detail, case, shrunk: false });
                    break;
                }
            }
        }
        finish(&mut res, acc);
        return res;
    }

    let pl = plan(&ctx, e, prop);
    let needs_fields = !matches!(prop, "C06" | "C13" | "C19");
    if pl.kinds.is_empty() || (needs_fields && pl.elig.is_empty()) {
        res.skipped = true;
        finish(&mut res, acc);
        return res;
    }
    if prop == "C13" && e.build.is_none() {
        res.skipped = true;
        finish(&mut res, acc);
        return res;
    }
    if prop == "C19" && e.twin_debug.is_none() {
        res.skipped = true;
        finish(&mut res, acc);
        return res;
    }

    // ---- exhaustive sweep for small bases (no RNG involved)
    let bb = ctx.layout.base_bits;
    if pl.exhaustive_ok && bb <= if prop == "C12" { 10 } else { 12 } {
        let nraw = 1u64 << bb;
        let mut per_raw: u64 = 0;
        let mut full = true;
        let mut targets: Vec<(Kind, usize, usize, Vec<u128>)> = Vec::new();
        let sweep_kinds: Vec<Kind> = if prop == "C12" { vec![Kind::Write] } else { pl.kinds.iter().map(|k| k.1).collect() };
        for k in &sweep_kinds {
            match k {
                Kind::Read => {
                    for f in pl.elig.iter().copied().filter(|f| ctx.fields[*f].readable) {
                        for i in 0..ctx.fields[f].count as usize {
                            targets.push((Kind::Read, f, i, vec![0]));
                            per_raw += 1;
                        }
                    }
                }
                Kind::Write => {
                    for f in pl.elig.iter().copied().filter(|f| ctx.fields[*f].writable) {
                        let fc = &ctx.fields[f];
                        let vals: Vec<u128> = if let Some(vv) = &fc.valid_vals {
                            vv.clone()
                        } else if fc.width <= 8 {
                            (0..(1u128 << fc.width)).collect()
                        } else {
                            full = false;
                            let mut e = fc.edges.clone();
                            e.sort();
                            e.dedup();
                            e
                        };
                        for i in 0..fc.count as usize {
                            per_raw += vals.len() as u64;
                            targets.push((Kind::Write, f, i, vals.clone()));
                        }
                    }
                }
                Kind::Raw => {
                    targets.push((Kind::Raw, 0, 0, vec![0]));
                    per_raw += 1;
                }
                _ => {}
            }
        }
        if per_raw > 0 && nraw * per_raw <= args.exh_budget {
            'sweep: for raw in 0..nraw as u128 {
                for (k, f, i, vals) in &targets {
                    for v in vals {
                        let case = match k {
                            Kind::Read => Case::Read { raw: H(raw), f: *f, i: *i, noise: H(!0u128 ^ raw.rotate_left(3)), k: (raw % 128) as u32 % ctx.fields[*f].width },
                            Kind::Write => Case::Write { raw: H(raw), f: *f, i: *i, v: H(*v) },
                            _ => Case::Raw { raw: H(raw) },
                        };
                        match exec_case(&ctx, e, prop, &case) {
                            Ok(info) => acc.record(&case, &info),
                            Err(fl) => {
                                res.failure = Some(FailOut { check: fl.check, detail: fl.detail, case, shrunk: false });
                                break 'sweep;
                            }
                        }
                    }
                }
            }
            res.exhaustive = full && res.failure.is_none() && prop != "C12";
            if prop == "C12" && full && res.failure.is_none() {
                res.extra.insert("single_step_sweep_exhaustive".into(), 1);
            }
            // out-of-range indices are still sampled below for C03
            if res.failure.is_some() || prop != "C03" {
                // also run a reduced random part so that seeds matter even for tiny bases
                if res.failure.is_some() {
                    finish(&mut res, acc);
                    return res;
                }
            }
        }
    }

    // ---- proptest part
    let cases = if res.exhaustive && prop != "C03" { (args.cases / 8).max(16) } else { args.cases };
    let max_ops = args.max_ops;
    let n_args = n_build_args(&ctx);
    let strategy = abs_strategy(max_ops, n_args);
    let cfg = Config { cases, failure_persistence: None, max_shrink_iters: 4096, ..Config::default() };
    let rng = TestRng::from_seed(RngAlgorithm::ChaCha, &seed_bytes(&[args.seed, prop_num(prop), e.id as u64, 0xB17F]));
    let mut runner = TestRunner::new_with_rng(cfg, rng);
    let failed = Cell::new(false);
    let accr = RefCell::new(acc);
    let result = runner.run(&strategy, |abs| {
        let case = match concretize(&ctx, e, prop, &pl, max_ops, &abs) {
            Some(c) => c,
            None => return Ok(()),
        };
        match exec_case(&ctx, e, prop, &case) {
            Ok(info) => {
                if !failed.get() {
                    accr.borrow_mut().record(&case, &info);
                }
                Ok(())
            }
            Err(f) => {
                failed.set(true);
                Err(TestCaseError::fail(f.check))
            }
        }
    });
    let acc = accr.into_inner();
    if let Err(err) = result {
        match err {
            TestError::Fail(_, abs) => {
                if let Some(case) = concretize(&ctx, e, prop, &pl, max_ops, &abs) {
                    match exec_case(&ctx, e, prop, &case) {
                        Err(f) => res.failure = Some(FailOut { check: f.check, detail: f.detail, case, shrunk: true }),
                        Ok(_) => {
                            res.failure = Some(FailOut {
                                check: "flaky".into(),
                                detail: "shrunk case passed on re-execution".into(),
                                case,
                                shrunk: true,
                            })
                        }
                    }
                }
            }
            TestError::Abort(r) => {
                res.failure = Some(FailOut { check: "harness-abort".into(), detail: format!("{}", r), case: Case::Static, shrunk: false });
            }
        }
    }
    finish(&mut res, acc);
    res
}

fn finish(res: &mut LayoutResult, acc: Acc) {
    res.evaluations = acc.evaluations;
    res.nontrivial_distinct = acc.seen.len() as u64;
    res.samples = acc.samples;
    res.digest = format!("{:016x}", acc.digest);
    res.kinds = acc.kinds;
}

fn silence_panics() {
    std::panic::set_hook(Box::new(|_| {}));
}

fn write_out<T: Serialize>(path: &str, v: &T) {
    let s = serde_json::to_string(v).expect("serialise results");
    std::fs::write(path, s).expect("write results");
}

pub fn main_layouts(entries: Vec<Entry>) {
    let args = parse_args();
    silence_panics();
    let entries: Vec<Entry> = match args.only {
        Some(id) => entries.into_iter().filter(|e| e.id == id).collect(),
        None => entries,
    };
    let next = AtomicUsize::new(0);
    let results: Mutex<Vec<LayoutResult>> = Mutex::new(Vec::new());
    let nthreads = args.threads.max(1).min(entries.len().max(1));
    std::thread::scope(|s| {
        for _ in 0..nthreads {
            s.spawn(|| loop {
                let k = next.fetch_add(1, Ordering::SeqCst);
                if k >= entries.len() {
                    break;
                }
                let r = match guard(|| run_layout(&entries[k], &args)) {
                    Ok(r) => r,
                    Err(m) => LayoutResult {
                        id: entries[k].id,
                        failure: Some(FailOut { check: "harness-panic".into(), detail: m, case: Case::Static, shrunk: false }),
                        ..Default::default()
                    },
                };
                results.lock().unwrap().push(r);
            });
        }
    });
    let mut r = results.into_inner().unwrap();
    r.sort_by_key(|x| x.id);
    write_out(&args.out, &r);
}

// ---------------------------------------------------------------------------------------------
// bitenums (C07, C10 behaviour part, C15 enum conversions)

fn run_enum(e: &EnumEntry, args: &Args) -> LayoutResult {
    let decl: EnumDecl = serde_json::from_str(e.decl_json).expect("enum json");
    let mut res = LayoutResult { id: e.id, ..Default::default() };
    let mut acc = Acc::new();
    if args.prop == "C15" {
        let cs = (e.consts.expect("consts"))();
        for (k, c) in cs.iter().enumerate() {
            let case = Case::Const { k };
            match exec_const_case(c) {
                Ok(info) => acc.record(&case, &info),
                Err(f) => {
                    res.failure = Some(FailOut { check: f.check, detail: f.detail, case, shrunk: false });
                    break;
                }
            }
        }
        finish(&mut res, acc);
        return res;
    }
    if let Some(rj) = &args.replay {
        let case: Case = serde_json::from_str(rj).expect("replay case json");
        if let Case::Enum { x } = &case {
            match exec_enum(&decl, e, x.0) {
                Ok(info) => acc.record(&case, &info),
                Err(f) => res.failure = Some(FailOut { check: f.check, detail: f.detail, case: case.clone(), shrunk: false }),
            }
        }
        finish(&mut res, acc);
        return res;
    }
    let n = decl.bits;
    let m = mask(n);
    let mut hit = 0u64;
    let mut miss = 0u64;
    let mut run_one = |x: u128, acc: &mut Acc, res: &mut LayoutResult| -> bool {
        let case = Case::Enum { x: H(x) };
        match exec_enum(&decl, e, x) {
            Ok(info) => {
                if decl.lookup(x).is_some() {
                    hit += 1
                } else {
                    miss += 1
                }
                acc.record(&case, &info);
                true
            }
            Err(f) => {
                res.failure = Some(FailOut { check: f.check, detail: f.detail, case, shrunk: false });
                false
            }
        }
    };
    let exhaustive_limit = if args.exh_budget >= 1_000_000 { 20 } else { 16 };
    if n <= exhaustive_limit {
        for x in 0..=(m) {
            if !run_one(x, &mut acc, &mut res) {
                break;
            }
        }
        res.exhaustive = res.failure.is_none();
    } else {
        let mut xs: Vec<u128> = vec![0, m, 1, m - 1, m >> 1, (m >> 1) + 1];
        for (d, _) in decl.table() {
            xs.push(d);
            xs.push(d.wrapping_add(1) & m);
            xs.push(d.wrapping_sub(1) & m);
            for b in 0..n {
                xs.push((d ^ (1u128 << b)) & m);
            }
        }
        for b in 0..n {
            xs.push(1u128 << b);
            xs.push(m & !(1u128 << b));
        }
        xs.sort();
        xs.dedup();
        for x in xs {
            if !run_one(x, &mut acc, &mut res) {
                break;
            }
        }
        if res.failure.is_none() {
            use proptest::prelude::*;
            let cfg = Config { cases: args.cases, failure_persistence: None, ..Config::default() };
            let rng = TestRng::from_seed(RngAlgorithm::ChaCha, &seed_bytes(&[args.seed, prop_num(&args.prop), e.id as u64, 0xE7]));
            let mut runner = TestRunner::new_with_rng(cfg, rng);
            let failed = Cell::new(false);
            let accr = RefCell::new(acc);
            let hm = RefCell::new((0u64, 0u64));
            let result = runner.run(&any::<u64>(), |x| {
                let x = (x as u128) & m;
                match exec_enum(&decl, e, x) {
                    Ok(info) => {
                        if !failed.get() {
                            accr.borrow_mut().record(&Case::Enum { x: H(x) }, &info);
                            if decl.lookup(x).is_some() {
                                hm.borrow_mut().0 += 1
                            } else {
                                hm.borrow_mut().1 += 1
                            }
                        }
                        Ok(())
                    }
                    Err(f) => {
                        failed.set(true);
                        Err(TestCaseError::fail(f.check))
                    }
                }
            });
            acc = accr.into_inner();
            let (h2, m2) = hm.into_inner();
            if let Err(TestError::Fail(_, x)) = result {
                let x = (x as u128) & m;
                if let Err(f) = exec_enum(&decl, e, x) {
                    res.failure = Some(FailOut { check: f.check, detail: f.detail, case: Case::Enum { x: H(x) }, shrunk: true });
                }
            }
            res.extra.insert("hits".into(), h2);
            res.extra.insert("misses".into(), m2);
        }
    }
    *res.extra.entry("hits".into()).or_insert(0) += hit;
    *res.extra.entry("misses".into()).or_insert(0) += miss;
    finish(&mut res, acc);
    res
}

pub fn main_enums(entries: Vec<EnumEntry>) {
    let args = parse_args();
    silence_panics();
    let entries: Vec<EnumEntry> = match args.only {
        Some(id) => entries.into_iter().filter(|e| e.id == id).collect(),
        None => entries,
    };
    let next = AtomicUsize::new(0);
    let results: Mutex<Vec<LayoutResult>> = Mutex::new(Vec::new());
    let nthreads = args.threads.max(1).min(entries.len().max(1));
    std::thread::scope(|s| {
        for _ in 0..nthreads {
            s.spawn(|| loop {
                let k = next.fetch_add(1, Ordering::SeqCst);
                if k >= entries.len() {
                    break;
                }
                let r = match guard(|| run_enum(&entries[k], &args)) {
                    Ok(r) => r,
                    Err(m) => LayoutResult {
                        id: entries[k].id,
                        failure: Some(FailOut { check: "harness-panic".into(), detail: m, case: Case::Static, shrunk: false }),
                        ..Default::default()
                    },
                };
                results.lock().unwrap().push(r);
            });
        }
    });
    let mut r = results.into_inner().unwrap();
    r.sort_by_key(|x| x.id);
    write_out(&args.out, &r);
}
