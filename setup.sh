#!/bin/bash
# Builds the verification engine and pre-builds the dependencies of generated crates. Offline.
set -eu
export CARGO_NET_OFFLINE=true
HERE="$(cd "$(dirname "$0")" && pwd)"
mkdir -p "$HERE/target" "$HERE/work" "$HERE/evidence" "$HERE/replays"
( cd "$HERE/engine" && CARGO_TARGET_DIR="$HERE/target/engine" cargo build --offline --release -p driver )
# warm the shared target directory of generated crates (proptest, syn, rt, model; dev + release)
BBV_ROOT="$HERE" "$HERE/target/engine/release/bbv" warm
echo "setup done"
